// vsim runtime: see vsim.hh. Compiled without sanitizers.
#include "vsim.hh"

#include <errno.h>
#include <fcntl.h>
#include <poll.h>
#include <signal.h>
#include <stdarg.h>
#include <stdio.h>
#include <stdlib.h>
#include <string.h>
#include <sys/mman.h>
#include <sys/stat.h>
#include <sys/time.h>
#include <sys/wait.h>
#include <time.h>
#include <unistd.h>

#include <algorithm>
#include <map>
#include <set>
#include <string>
#include <vector>

#include "json_min.hh"

// Sanitizer defaults. Non-inline, used, default visibility so the runtimes find them.
extern "C" {
__attribute__((used, visibility("default"))) const char* __asan_default_options() {
  return "exitcode=77:detect_leaks=0:abort_on_error=0:allocator_may_return_null=1:"
         "handle_sigfpe=1:handle_abort=1:detect_stack_use_after_return=0:print_summary=1:"
         "malloc_context_size=8:symbolize=1:"
         // every heap block is filled with 0xBE over its whole length (default: first 4 KiB only), so that
         // code reading memory it never wrote behaves the same in a long-lived worker and in a fresh
         // evaluator (uninitialised heap reads become a deterministic wrong value instead of noise)
         "max_malloc_fill_size=1073741824:malloc_fill_byte=190";
}
__attribute__((used, visibility("default"))) const char* __ubsan_default_options() {
  return "halt_on_error=1:exitcode=77:print_stacktrace=1";
}
__attribute__((used, visibility("default"))) const char* __tsan_default_options() {
  return "halt_on_error=1:exitcode=77:report_signal_unsafe=0:die_after_fork=0:history_size=2:atexit_sleep_ms=0";
}
}

extern "C" {
int __llvm_profile_write_file(void) __attribute__((weak)); // coverage builds only (tools/coverage.sh)
void AnnotateIgnoreReadsBegin(const char* f, int l) __attribute__((weak));
void AnnotateIgnoreReadsEnd(const char* f, int l) __attribute__((weak));
void AnnotateIgnoreWritesBegin(const char* f, int l) __attribute__((weak));
void AnnotateIgnoreWritesEnd(const char* f, int l) __attribute__((weak));
}

namespace vsim {

void tsan_ignore_begin() {
  if (AnnotateIgnoreReadsBegin) {
    AnnotateIgnoreReadsBegin(__FILE__, __LINE__);
    AnnotateIgnoreWritesBegin(__FILE__, __LINE__);
  }
}
void tsan_ignore_end() {
  if (AnnotateIgnoreReadsEnd) {
    AnnotateIgnoreWritesEnd(__FILE__, __LINE__);
    AnnotateIgnoreReadsEnd(__FILE__, __LINE__);
  }
}

// ------------------------------------------------------------------ small utilities

uint64_t mix64(uint64_t x) {
  x += 0x9E3779B97F4A7C15ULL;
  x = (x ^ (x >> 30)) * 0xBF58476D1CE4E5B9ULL;
  x = (x ^ (x >> 27)) * 0x94D049BB133111EBULL;
  return x ^ (x >> 31);
}

static double wall_now() {
  struct timespec ts;
  clock_gettime(CLOCK_MONOTONIC, &ts);
  return ts.tv_sec + ts.tv_nsec * 1e-9;
}

static std::string strprintf(const char* fmt, ...) {
  va_list va;
  va_start(va, fmt);
  char buf[4096];
  int n = vsnprintf(buf, sizeof(buf), fmt, va);
  va_end(va);
  if (n < 0) return "";
  if ((size_t)n < sizeof(buf)) return std::string(buf, n);
  std::string big(n + 1, '\0');
  va_start(va, fmt);
  vsnprintf(big.data(), big.size(), fmt, va);
  va_end(va);
  big.resize(n);
  return big;
}

struct Rng {
  uint64_t s[4];
  void seed(uint64_t a, uint64_t b) {
    uint64_t x = mix64(a) ^ mix64(b * 0xD1342543DE82EF95ULL + 0x632BE59BD9B4E019ULL);
    for (int i = 0; i < 4; i++) {
      x = mix64(x + i);
      s[i] = x;
    }
  }
  static uint64_t rotl(uint64_t x, int k) { return (x << k) | (x >> (64 - k)); }
  uint64_t next() {
    uint64_t r = rotl(s[1] * 5, 7) * 9;
    uint64_t t = s[1] << 17;
    s[2] ^= s[0];
    s[3] ^= s[1];
    s[1] ^= s[2];
    s[0] ^= s[3];
    s[2] ^= t;
    s[3] = rotl(s[3], 45);
    return r;
  }
};

// ------------------------------------------------------------------ per-run state

struct TapeEntry {
  const char* site;
  uint32_t n;
  uint32_t v;
};

struct Event {
  const char* kind;
  uint64_t a, b, c;
};

struct RunState {
  bool replay = false;
  std::vector<uint32_t> in_tape; // replay input
  size_t pos = 0;
  Rng rng;
  std::vector<TapeEntry> tape; // what was actually consumed
  std::vector<Event> events;
  std::vector<std::pair<size_t, std::string>> notes; // (event position, text)
  uint64_t hash = 0xCBF29CE484222325ULL;
  bool has_violation = false;
  Violation violation;
  bool nontrivial = false;
  bool os_timing = false;
  bool verbose = false;
  uint64_t sim_time_us = 0;
  uint64_t index = 0;
};

int g_harness_depth = 0;
static RunState* g_run = nullptr;
static const Engine* g_engine = nullptr;
static std::string g_tier = "quick";
static bool g_keep_events = true;

// ------------------------------------------------------------------ shared worker slot

static const int MAX_COUNTERS = 256;
static const int MAX_SLOT_VIOL = 64;
static const int MAX_NT_SAMPLES = 4;

struct SlotViolation {
  uint64_t idx;
  uint64_t hash;
  char cls[96];
  char key[160];
};

struct HashRec {
  uint64_t idx;
  uint64_t hash;
  uint64_t flags; // bit0 nontrivial, bit1 violation
};

struct Slot {
  volatile uint64_t cur_idx;
  volatile uint64_t in_run;
  volatile uint64_t done;
  volatile uint64_t next_idx; // next index this worker would execute (for restarts)
  volatile uint64_t spawn_start; // first index executed by the current worker process
  char context[160];
  uint64_t nviol;
  uint64_t viol_overflow;
  SlotViolation viol[MAX_SLOT_VIOL];
  uint64_t ncounters;
  char cname[MAX_COUNTERS][48];
  uint64_t cval[MAX_COUNTERS];
  uint64_t sim_time_us;
  uint64_t nontrivial_runs;
  uint64_t nt_samples[MAX_NT_SAMPLES];
  uint64_t n_nt_samples;
  uint64_t nhash;
  uint64_t hash_cap;
  uint64_t capped; // stopped by wall-clock cap
  uint64_t record_tape; // evaluator slot: mirror consumed choices here so a crash keeps its tape
  uint64_t tape_len;
  uint32_t tape[1 << 16];
  HashRec* hashes; // separate shared mapping (same address in children)
};

static Slot* g_slot = nullptr; // slot of this process (worker or evaluator); may be null
static Slot g_local_slot; // used when no shared slot (e.g. --one)

static void* shared_alloc(size_t bytes) {
  void* p = mmap(nullptr, bytes, PROT_READ | PROT_WRITE, MAP_SHARED | MAP_ANONYMOUS, -1, 0);
  if (p == MAP_FAILED) {
    fprintf(stderr, "vsim: mmap(%zu) failed: %s\n", bytes, strerror(errno));
    exit(2);
  }
  return p;
}

// counters: pointer-keyed cache in front of the by-name table in the slot
struct CounterCache {
  const char* ptr[MAX_COUNTERS];
  int slot_index[MAX_COUNTERS];
  int n = 0;
};
static CounterCache g_cc;

static int counter_index(const char* name) {
  for (int i = 0; i < g_cc.n; i++) {
    if (g_cc.ptr[i] == name) return g_cc.slot_index[i];
  }
  Slot* s = g_slot ? g_slot : &g_local_slot;
  int idx = -1;
  for (uint64_t i = 0; i < s->ncounters; i++) {
    if (!strncmp(s->cname[i], name, sizeof(s->cname[i]) - 1)) {
      idx = i;
      break;
    }
  }
  if (idx < 0) {
    if (s->ncounters >= (uint64_t)MAX_COUNTERS) return -1;
    idx = s->ncounters;
    strncpy(s->cname[idx], name, sizeof(s->cname[idx]) - 1);
    s->cval[idx] = 0;
    s->ncounters = s->ncounters + 1;
  }
  if (g_cc.n < MAX_COUNTERS) {
    g_cc.ptr[g_cc.n] = name;
    g_cc.slot_index[g_cc.n] = idx;
    g_cc.n++;
  }
  return idx;
}

void count(const char* name, uint64_t delta) {
  Quiet quiet;
  int i = counter_index(name);
  if (i >= 0) {
    Slot* s = g_slot ? g_slot : &g_local_slot;
    s->cval[i] += delta;
  }
}

void fault(const char* kind) {
  // fault counters are namespaced so evidence can list them separately
  count(kind, 1);
  if (g_run) g_run->nontrivial = true;
}

void probe(const char* name) { count(name, 1); }

void mark_os_timing() {
  if (g_run) g_run->os_timing = true;
}

void mark_nontrivial() {
  if (g_run) g_run->nontrivial = true;
}

void add_sim_time_us(uint64_t us) {
  if (g_run) g_run->sim_time_us += us;
}

static int g_entry_errno = -1;
void set_entry_errno(int e) { g_entry_errno = e; }

void set_context(const std::string& ctx) {
  {
    Quiet quiet;
    Slot* s = g_slot ? g_slot : &g_local_slot;
    size_t n = std::min(ctx.size(), sizeof(s->context) - 1);
    memcpy(s->context, ctx.data(), n);
    s->context[n] = 0;
  }
  // engines set the context right before they call into the library: that is where the caller's errno is
  // whatever some earlier, unrelated call left behind
  if (g_entry_errno >= 0 && !ctx.empty()) errno = g_entry_errno;
}

// ------------------------------------------------------------------ choices

static inline void fold(uint64_t v) {
  uint64_t& h = g_run->hash;
  h ^= v;
  h *= 0x100000001B3ULL;
  h ^= h >> 29;
}

uint32_t choose(uint32_t n, const char* site) {
  if (n <= 1 || !g_run) return 0; // outside a run (process_init) every choice is the simplest one
  Quiet quiet;
  RunState& r = *g_run;
  uint32_t v;
  if (r.replay) {
    v = (r.pos < r.in_tape.size()) ? r.in_tape[r.pos] : 0;
    r.pos++;
    if (v >= n) v = n - 1;
  } else {
    v = (uint32_t)(r.rng.next() % n);
  }
  r.tape.push_back({site, n, v});
  if (g_slot && g_slot->record_tape && g_slot->tape_len < (sizeof(g_slot->tape) / sizeof(g_slot->tape[0]))) {
    g_slot->tape[g_slot->tape_len] = v;
    g_slot->tape_len = g_slot->tape_len + 1;
  }
  return v;
}

bool chance(uint32_t num, uint32_t den, const char* site) {
  if (num == 0) return false;
  if (num >= den) {
    return true;
  }
  return choose(den, site) >= den - num;
}

uint64_t pick(std::initializer_list<uint64_t> values, const char* site) {
  uint32_t i = choose(values.size(), site);
  return *(values.begin() + i);
}

uint64_t choose_range(uint64_t lo, uint64_t hi, const char* site) {
  if (hi <= lo) return lo;
  uint64_t range = hi - lo;
  int bits = 64 - __builtin_clzll(range);
  uint32_t b = choose(bits + 1, site);
  if (b == 0) return lo;
  uint64_t base = 1ULL << (b - 1);
  uint64_t top = (b == 64) ? UINT64_MAX : ((1ULL << b) - 1);
  if (top > range) top = range;
  uint64_t span = top - base + 1;
  uint64_t off;
  if (span <= 0xFFFFFFFFULL) {
    off = choose((uint32_t)span, site);
  } else {
    uint64_t hi32 = choose((uint32_t)std::min<uint64_t>((span >> 32) + 1, 0xFFFFFFFFULL), site);
    uint64_t lo32 = choose(0xFFFFFFFFu, site);
    off = ((hi32 << 32) | lo32) % span;
  }
  return lo + base + off;
}

// ------------------------------------------------------------------ event log

static uint64_t hash_cstr(const char* s) {
  uint64_t h = 0xCBF29CE484222325ULL;
  for (; *s; s++) {
    h ^= (uint8_t)*s;
    h *= 0x100000001B3ULL;
  }
  return h;
}

void ev(const char* kind, uint64_t a, uint64_t b, uint64_t c) {
  if (!g_run) return;
  Quiet quiet;
  RunState& r = *g_run;
  fold(hash_cstr(kind));
  fold(a);
  fold(b);
  fold(c);
  static int trace_now = getenv("VSIM_TRACE") ? 1 : 0; // debugging aid: print events as they happen
  if (trace_now) fprintf(stderr, "EV %s %llu %llu %llu\n", kind, (unsigned long long)a, (unsigned long long)b, (unsigned long long)c);
  if (g_keep_events) {
    if (r.events.size() < 20000) r.events.push_back({kind, a, b, c});
  }
}

void note(const std::string& text) {
  Quiet quiet;
  if (g_run && g_run->verbose) g_run->notes.emplace_back(g_run->events.size(), text);
}

bool verbose() { return g_run && g_run->verbose; }

void hash_bytes(const void* data, size_t size) {
  if (!g_run) return;
  Quiet quiet;
  const uint8_t* p = (const uint8_t*)data;
  uint64_t h = 0xCBF29CE484222325ULL;
  for (size_t i = 0; i < size; i++) {
    h ^= p[i];
    h *= 0x100000001B3ULL;
  }
  fold(h);
  fold(size);
}

void hash_u64(uint64_t v) {
  if (g_run) fold(v);
}

// ------------------------------------------------------------------ verdicts

void fail_soft(const std::string& cls, const std::string& key, const std::string& msg) {
  if (!g_run) harness_bug("violation reported outside a run: " + cls + ": " + msg);
  Quiet quiet;
  RunState& r = *g_run;
  if (!r.has_violation) {
    r.has_violation = true;
    r.violation = {cls, key, msg};
  }
}

void fail(const std::string& cls, const std::string& key, const std::string& msg) {
  fail_soft(cls, key, msg);
  throw AbortRun();
}

bool failed() { return g_run && g_run->has_violation; }

void harness_bug(const std::string& msg) {
  fprintf(stderr, "HARNESS-BUG: %s\n", msg.c_str());
  fflush(stderr);
  _exit(2);
}

uint64_t run_index() { return g_run ? g_run->index : 0; }
bool replaying() { return g_run && g_run->replay; }
const char* tier() { return g_tier.c_str(); }

// ------------------------------------------------------------------ executing one run

struct TapeSpec {
  bool replay = false;
  uint64_t seed = 0;
  uint64_t idx = 0;
  std::vector<uint32_t> tape;
  // Process history to re-create before the run itself (generate-mode runs warm_start,
  // warm_start+warm_stride, ... , warm_count of them). Needed only for reports that depend on the state a
  // long-lived worker had accumulated (ThreadSanitizer's shadow cells are evicted pseudo-randomly).
  uint64_t warm_seed = 0, warm_start = 0, warm_stride = 0, warm_count = 0;
};

struct Outcome {
  enum Kind { OK = 0, VIOLATION = 1, CRASH = 2, TIMEOUT = 3 } kind = OK;
  std::string cls, key, msg;
  uint64_t hash = 0;
  bool nontrivial = false;
  bool os_timing = false; // part of the run was timed by the operating system (see vsim.hh mark_os_timing)
  uint64_t sim_time_us = 0;
  std::vector<uint32_t> tape; // consumed values
  std::vector<std::string> tape_annot; // site=value/n
  std::vector<std::string> trace; // rendered events (verbose only)
};

static std::string render_event(const Event& e) {
  return strprintf("%s %llu %llu %llu", e.kind, (unsigned long long)e.a, (unsigned long long)e.b, (unsigned long long)e.c);
}

static Outcome run_one(const TapeSpec& spec, bool verbose) {
  RunState r;
  r.replay = spec.replay;
  r.in_tape = spec.tape;
  r.index = spec.idx;
  r.verbose = verbose;
  r.rng.seed(spec.seed, spec.idx ^ (hash_cstr(g_engine->property) << 20));
  g_run = &r;
  set_context("");
  try {
    g_engine->run();
  } catch (const AbortRun&) {
  } catch (const std::exception& e) {
    fail_soft("engine/uncaught_exception", "uncaught", std::string("exception escaped the run: ") + e.what());
  } catch (...) {
    fail_soft("engine/uncaught_exception", "uncaught", "unknown exception escaped the run");
  }
  g_run = nullptr;
  Outcome o;
  o.kind = r.has_violation ? Outcome::VIOLATION : Outcome::OK;
  o.cls = r.violation.cls;
  o.key = r.violation.key;
  o.msg = r.violation.msg;
  o.hash = r.hash;
  o.nontrivial = r.nontrivial;
  o.os_timing = r.os_timing;
  o.sim_time_us = r.sim_time_us;
  o.tape.reserve(r.tape.size());
  for (auto& t : r.tape) o.tape.push_back(t.v);
  if (verbose) {
    for (auto& t : r.tape) o.tape_annot.push_back(strprintf("%s=%u/%u", t.site, t.v, t.n));
    size_t ni = 0;
    for (size_t i = 0; i <= r.events.size(); i++) {
      while (ni < r.notes.size() && r.notes[ni].first == i) {
        o.trace.push_back("# " + r.notes[ni].second);
        ni++;
      }
      if (i < r.events.size()) o.trace.push_back(render_event(r.events[i]));
    }
  }
  return o;
}

// ---- serialisation of Outcome across the evaluator pipe

static void put_u64(std::string& s, uint64_t v) { s.append((const char*)&v, 8); }
static void put_str(std::string& s, const std::string& v) {
  put_u64(s, v.size());
  s += v;
}
struct Rd {
  const std::string& s;
  size_t p = 0;
  bool ok = true;
  uint64_t u64() {
    if (p + 8 > s.size()) {
      ok = false;
      return 0;
    }
    uint64_t v;
    memcpy(&v, s.data() + p, 8);
    p += 8;
    return v;
  }
  std::string str() {
    uint64_t n = u64();
    if (!ok || p + n > s.size()) {
      ok = false;
      return "";
    }
    std::string v = s.substr(p, n);
    p += n;
    return v;
  }
};

static std::string serialize(const Outcome& o) {
  std::string s;
  put_u64(s, 0x4F55544Full);
  put_u64(s, o.kind);
  put_str(s, o.cls);
  put_str(s, o.key);
  put_str(s, o.msg);
  put_u64(s, o.hash);
  put_u64(s, (o.nontrivial ? 1 : 0) | (o.os_timing ? 2 : 0));
  put_u64(s, o.sim_time_us);
  put_u64(s, o.tape.size());
  for (auto v : o.tape) put_u64(s, v);
  put_u64(s, o.tape_annot.size());
  for (auto& v : o.tape_annot) put_str(s, v);
  put_u64(s, o.trace.size());
  for (auto& v : o.trace) put_str(s, v);
  put_u64(s, 0x454E4421ull);
  return s;
}

static bool deserialize(const std::string& s, Outcome& o) {
  Rd r{s};
  if (r.u64() != 0x4F55544Full) return false;
  o.kind = (Outcome::Kind)r.u64();
  o.cls = r.str();
  o.key = r.str();
  o.msg = r.str();
  o.hash = r.u64();
  {
    uint64_t fl = r.u64();
    o.nontrivial = fl & 1;
    o.os_timing = fl & 2;
  }
  o.sim_time_us = r.u64();
  uint64_t n = r.u64();
  if (!r.ok || n > (1u << 26)) return false;
  o.tape.resize(n);
  for (auto& v : o.tape) v = r.u64();
  n = r.u64();
  if (!r.ok || n > (1u << 26)) return false;
  o.tape_annot.resize(n);
  for (auto& v : o.tape_annot) v = r.str();
  n = r.u64();
  if (!r.ok || n > (1u << 26)) return false;
  o.trace.resize(n);
  for (auto& v : o.trace) v = r.str();
  return r.ok && r.u64() == 0x454E4421ull;
}

// ---- crash classification from a stderr capture

static std::string work_dir() {
  static std::string d;
  if (d.empty()) {
    const char* t = getenv("VERIF_WORK");
    std::string base = t ? t : (std::string(getenv("TMPDIR") ? getenv("TMPDIR") : "/tmp"));
    d = base + strprintf("/vsim-%d", (int)getpid());
    mkdir(d.c_str(), 0700);
  }
  return d;
}

static void remove_work_dir() {
  if (getenv("VERIF_KEEP_WORK")) return;
  std::string d = work_dir();
  std::string cmd = "rm -rf '" + d + "'";
  if (system(cmd.c_str())) {
  }
}

static std::string read_file_tail(const std::string& path, size_t max_bytes) {
  FILE* f = fopen(path.c_str(), "rb");
  if (!f) return "";
  fseek(f, 0, SEEK_END);
  long sz = ftell(f);
  long start = sz > (long)max_bytes ? sz - (long)max_bytes : 0;
  fseek(f, start, SEEK_SET);
  std::string s(sz - start, '\0');
  size_t n = fread(s.data(), 1, s.size(), f);
  s.resize(n);
  fclose(f);
  return s;
}

static std::string read_file_head(const std::string& path, size_t max_bytes) {
  FILE* f = fopen(path.c_str(), "rb");
  if (!f) return "";
  std::string s(max_bytes, '\0');
  size_t n = fread(s.data(), 1, s.size(), f);
  s.resize(n);
  fclose(f);
  return s;
}

static const char* signal_name(int sig) {
  switch (sig) {
    case SIGSEGV: return "SIGSEGV";
    case SIGBUS: return "SIGBUS";
    case SIGFPE: return "SIGFPE";
    case SIGABRT: return "SIGABRT";
    case SIGILL: return "SIGILL";
    case SIGKILL: return "SIGKILL";
    case SIGALRM: return "SIGALRM";
    case SIGPIPE: return "SIGPIPE";
    case SIGTERM: return "SIGTERM";
    default: return "SIG?";
  }
}

// Builds (class, message) for an abnormal death.
static void classify_death(int status, const std::string& err_text, std::string& cls, std::string& msg) {
  std::string kind;
  size_t p;
  if ((p = err_text.find("ERROR: AddressSanitizer: ")) != std::string::npos) {
    size_t q = p + strlen("ERROR: AddressSanitizer: ");
    size_t e = err_text.find_first_of(" \n", q);
    kind = "asan:" + err_text.substr(q, e == std::string::npos ? std::string::npos : e - q);
    // Which of these a wild access turns into depends on what happens to lie next to the block,
    // i.e. on heap layout; they are one violation class for gating and shrinking.
    static const char* MEM[] = {"heap-buffer-overflow", "SEGV", "heap-use-after-free", "stack-buffer-overflow", "global-buffer-overflow",
        "stack-use-after-return", "stack-use-after-scope", "use-after-poison", "container-overflow", "unknown-crash", "BUS",
        "stack-buffer-underflow", "dynamic-stack-buffer-overflow", "negative-size-param", "attempting"};
    for (const char* m : MEM)
      if (kind == std::string("asan:") + m) kind = "asan:memory-error";
  } else if ((p = err_text.find("runtime error: ")) != std::string::npos) {
    size_t q = p + strlen("runtime error: ");
    size_t e = err_text.find('\n', q);
    std::string line = err_text.substr(q, e == std::string::npos ? std::string::npos : e - q);
    // keep only the leading words that name the kind of UB (strip values)
    std::string k;
    for (char ch : line) {
      if (isdigit((unsigned char)ch) || ch == '\'' || ch == '-') break;
      k += (ch == ' ') ? '_' : ch;
    }
    while (!k.empty() && k.back() == '_') k.pop_back();
    kind = "ubsan:" + k;
  } else if ((p = err_text.find("WARNING: ThreadSanitizer: ")) != std::string::npos) {
    size_t q = p + strlen("WARNING: ThreadSanitizer: ");
    size_t e = err_text.find_first_of("(\n", q);
    std::string k = err_text.substr(q, e == std::string::npos ? std::string::npos : e - q);
    while (!k.empty() && k.back() == ' ') k.pop_back();
    for (auto& ch : k)
      if (ch == ' ') ch = '_';
    kind = "tsan:" + k;
    // a wild access is a use-after-free report or a SEGV depending on what the freed block holds by then
    if (k == "heap-use-after-free" || k == "double-free" || k == "bad_free") kind = "tsan:memory-error";
  } else if ((p = err_text.find("ERROR: ThreadSanitizer: ")) != std::string::npos) {
    size_t q = p + strlen("ERROR: ThreadSanitizer: ");
    size_t e = err_text.find_first_of(" \n", q);
    std::string k = err_text.substr(q, e == std::string::npos ? std::string::npos : e - q);
    // (FPE too: what a freed block holds by then decides whether a wild access faults, divides by zero or is
    // reported as use-after-free; the ASan+UBSan build of the same engine tells genuine arithmetic errors apart)
    kind = (k == "SEGV" || k == "BUS" || k == "ILL" || k == "FPE" || k == "ABRT") ? std::string("tsan:memory-error") : "tsan:" + k;
  } else if ((p = err_text.find("terminate called")) != std::string::npos) {
    kind = "terminate";
  } else if (WIFSIGNALED(status)) {
    kind = std::string("signal:") + signal_name(WTERMSIG(status));
  } else if (WIFEXITED(status)) {
    kind = strprintf("exit:%d", WEXITSTATUS(status));
  } else {
    kind = "death";
  }
  cls = "crash/" + kind;
  // message: first 30 lines of the report
  std::string head;
  size_t start = (p == std::string::npos) ? 0 : err_text.rfind('\n', p);
  start = (start == std::string::npos) ? 0 : start + 1;
  int lines = 0;
  for (size_t i = start; i < err_text.size() && lines < 30; i++) {
    head += err_text[i];
    if (err_text[i] == '\n') lines++;
  }
  msg = head;
}

// ---- forked evaluation

static Slot* g_eval_slot = nullptr;

static Outcome eval_forked(const TapeSpec& spec, bool verbose, double timeout_s = 60.0) {
  static int counter = 0;
  std::string errpath = work_dir() + strprintf("/eval-%d.err", counter++);
  int fds[2];
  if (pipe(fds)) harness_bug("pipe failed");
  memset((void*)g_eval_slot->context, 0, sizeof(g_eval_slot->context));
  g_eval_slot->record_tape = 1;
  g_eval_slot->tape_len = 0;
  fflush(stdout);
  fflush(stderr);
  pid_t pid = fork();
  if (pid < 0) harness_bug("fork failed");
  if (pid == 0) {
    close(fds[0]);
    int efd = getenv("VSIM_TRACE") ? -1 : open(errpath.c_str(), O_CREAT | O_TRUNC | O_WRONLY, 0600);
    if (efd >= 0) {
      dup2(efd, 2);
      close(efd);
    }
    g_slot = g_eval_slot;
    g_cc.n = 0;
    for (uint64_t i = 0; i < spec.warm_count; i++) {
      TapeSpec w;
      w.seed = spec.warm_seed;
      w.idx = spec.warm_start + i * spec.warm_stride;
      g_eval_slot->record_tape = 0;
      (void)run_one(w, false);
    }
    g_eval_slot->record_tape = 1;
    g_eval_slot->tape_len = 0;
    Outcome o = run_one(spec, verbose);
    std::string s = serialize(o);
    size_t off = 0;
    while (off < s.size()) {
      ssize_t n = write(fds[1], s.data() + off, s.size() - off);
      if (n <= 0) break;
      off += n;
    }
    close(fds[1]);
    if (__llvm_profile_write_file) __llvm_profile_write_file();
    _exit(0);
  }
  close(fds[1]);
  std::string buf;
  double deadline = wall_now() + timeout_s;
  bool timed_out = false;
  for (;;) {
    double left = deadline - wall_now();
    if (left <= 0) {
      timed_out = true;
      break;
    }
    struct pollfd pfd = {fds[0], POLLIN, 0};
    int pr = poll(&pfd, 1, (int)std::min(left * 1000.0 + 1, 1000.0));
    if (pr < 0 && errno == EINTR) continue;
    if (pr > 0) {
      char tmp[65536];
      ssize_t n = read(fds[0], tmp, sizeof(tmp));
      if (n < 0 && errno == EINTR) continue;
      if (n <= 0) break;
      buf.append(tmp, n);
    }
  }
  close(fds[0]);
  int status = 0;
  if (timed_out) {
    kill(pid, SIGKILL);
  }
  while (waitpid(pid, &status, 0) < 0 && errno == EINTR) {
  }
  Outcome o;
  if (timed_out) {
    // The run did not come back: the code under test hangs (every simulated blocking point is
    // bounded by step budgets, so only a loop that makes no simulated call at all can do this).
    // The limit is wall-clock, with a margin of several orders of magnitude over a normal run.
    o.kind = Outcome::TIMEOUT;
    o.cls = "hang/no_return_within_watchdog";
    o.key = std::string((const char*)g_eval_slot->context);
    if (o.key.empty()) o.key = "no-context";
    o.msg = strprintf("the run did not finish within %.0f s of wall-clock time (a normal run takes micro- to milliseconds); it was inside: %s", timeout_s, o.key.c_str());
    o.hash = hash_cstr(o.cls.c_str()) ^ mix64(hash_cstr(o.key.c_str()));
    o.tape.assign(g_eval_slot->tape, g_eval_slot->tape + g_eval_slot->tape_len);
  } else if (WIFEXITED(status) && WEXITSTATUS(status) == 0 && deserialize(buf, o)) {
    // ok
  } else if (WIFEXITED(status) && WEXITSTATUS(status) == 2) {
    std::string err = read_file_tail(errpath, 4000);
    fprintf(stderr, "vsim: evaluator reported a harness bug:\n%s\n", err.c_str());
    unlink(errpath.c_str());
    exit(2);
  } else {
    std::string err = read_file_head(errpath, 4 << 20);
    o = Outcome();
    o.kind = Outcome::CRASH;
    classify_death(status, err, o.cls, o.msg);
    o.key = std::string((const char*)g_eval_slot->context);
    if (o.key.empty()) o.key = "no-context";
    o.hash = hash_cstr(o.cls.c_str()) ^ mix64(hash_cstr(o.key.c_str()));
    // the choices consumed before the death were mirrored into the shared slot
    o.tape.assign(g_eval_slot->tape, g_eval_slot->tape + g_eval_slot->tape_len);
  }
  unlink(errpath.c_str());
  return o;
}

// ------------------------------------------------------------------ known findings

struct Known {
  std::string property, cls, key, status, commit, what;
};

static std::vector<Known> load_known(const std::string& path) {
  std::vector<Known> out;
  std::string text = read_file_head(path, 1 << 20);
  if (text.empty()) return out;
  jsonmin::Value v;
  std::string err;
  if (!jsonmin::parse(text, v, err)) {
    fprintf(stderr, "vsim: cannot parse %s: %s\n", path.c_str(), err.c_str());
    exit(2);
  }
  const jsonmin::Value* arr = v.get("findings");
  if (!arr || !arr->is_array()) return out;
  for (auto& f : arr->arr) {
    Known k;
    k.property = f.get_str("property");
    k.cls = f.get_str("class");
    k.key = f.get_str("key");
    k.status = f.get_str("status");
    k.commit = f.get_str("commit");
    k.what = f.get_str("what");
    out.push_back(k);
  }
  return out;
}

static const Known* match_known(const std::vector<Known>& ks, const std::string& prop, const std::string& cls, const std::string& key) {
  for (auto& k : ks) {
    if (k.status == "known" && k.property == prop && k.cls == cls && k.key == key) return &k;
  }
  return nullptr;
}

// ------------------------------------------------------------------ shrinking

struct ShrinkStats {
  int attempts = 0;
  size_t from = 0, to = 0;
};

static bool same_violation(const Outcome& o, const std::string& cls, const std::string& key) {
  return (o.kind == Outcome::VIOLATION || o.kind == Outcome::CRASH || o.kind == Outcome::TIMEOUT) && o.cls == cls && o.key == key;
}

static std::vector<uint32_t> shrink_tape(std::vector<uint32_t> tape, const std::string& cls, const std::string& key,
    int budget, double time_budget_s, ShrinkStats& st) {
  double t_end = wall_now() + time_budget_s;
  st.from = tape.size();
  auto test = [&](const std::vector<uint32_t>& cand, std::vector<uint32_t>* consumed) -> bool {
    if (st.attempts >= budget || wall_now() > t_end) return false;
    st.attempts++;
    TapeSpec sp;
    sp.replay = true;
    sp.tape = cand;
    Outcome o = eval_forked(sp, false, 30.0);
    if (same_violation(o, cls, key)) {
      if (consumed) *consumed = o.tape;
      return true;
    }
    return false;
  };
  auto strip = [](std::vector<uint32_t>& t) {
    while (!t.empty() && t.back() == 0) t.pop_back();
  };
  strip(tape);
  bool progress = true;
  while (progress && st.attempts < budget && wall_now() < t_end) {
    progress = false;
    // 1. truncate tail (binary search on the prefix length)
    {
      size_t lo = 0, hi = tape.size();
      while (lo < hi) {
        size_t mid = (lo + hi) / 2;
        std::vector<uint32_t> cand(tape.begin(), tape.begin() + mid);
        if (test(cand, nullptr)) {
          hi = mid;
        } else {
          lo = mid + 1;
        }
        if (st.attempts >= budget) break;
      }
      if (hi < tape.size()) {
        std::vector<uint32_t> cand(tape.begin(), tape.begin() + hi);
        if (test(cand, nullptr)) {
          tape = cand;
          strip(tape);
          progress = true;
        }
      }
    }
    // 2. delete spans
    for (size_t span = std::max<size_t>(tape.size() / 2, 1); span >= 1; span /= 2) {
      for (size_t i = 0; i + span <= tape.size();) {
        std::vector<uint32_t> cand;
        cand.insert(cand.end(), tape.begin(), tape.begin() + i);
        cand.insert(cand.end(), tape.begin() + i + span, tape.end());
        if (test(cand, nullptr)) {
          tape = cand;
          strip(tape);
          progress = true;
        } else {
          i += span;
        }
        if (st.attempts >= budget || wall_now() > t_end) break;
      }
      if (span == 1) break;
    }
    // 3. zero spans
    for (size_t span = std::max<size_t>(tape.size() / 2, 1); span >= 1; span /= 2) {
      for (size_t i = 0; i + span <= tape.size(); i += span) {
        bool any = false;
        for (size_t j = i; j < i + span; j++) any |= tape[j] != 0;
        if (!any) continue;
        std::vector<uint32_t> cand = tape;
        for (size_t j = i; j < i + span; j++) cand[j] = 0;
        if (test(cand, nullptr)) {
          tape = cand;
          progress = true;
        }
        if (st.attempts >= budget || wall_now() > t_end) break;
      }
      if (span == 1) break;
    }
    strip(tape);
    // 4. lower individual values
    for (size_t i = 0; i < tape.size(); i++) {
      if (tape[i] == 0) continue;
      uint32_t lo = 0, hi = tape[i]; // invariant: hi works
      while (lo < hi) {
        uint32_t mid = lo + (hi - lo) / 2;
        std::vector<uint32_t> cand = tape;
        cand[i] = mid;
        if (test(cand, nullptr)) {
          hi = mid;
        } else {
          lo = mid + 1;
        }
        if (st.attempts >= budget || wall_now() > t_end) break;
      }
      if (hi < tape[i]) {
        std::vector<uint32_t> cand = tape;
        cand[i] = hi;
        if (test(cand, nullptr)) {
          tape = cand;
          progress = true;
        }
      }
      if (st.attempts >= budget || wall_now() > t_end) break;
    }
    strip(tape);
  }
  st.to = tape.size();
  return tape;
}

// ------------------------------------------------------------------ JSON output helpers

static std::string jstr(const std::string& s) {
  std::string o = "\"";
  for (unsigned char ch : s) {
    switch (ch) {
      case '"': o += "\\\""; break;
      case '\\': o += "\\\\"; break;
      case '\n': o += "\\n"; break;
      case '\r': o += "\\r"; break;
      case '\t': o += "\\t"; break;
      default:
        if (ch < 0x20 || ch >= 0x7F) {
          o += strprintf("\\u%04x", ch);
        } else {
          o += (char)ch;
        }
    }
  }
  o += "\"";
  return o;
}

static std::string sanitize_filename(const std::string& s) {
  std::string o;
  for (char ch : s) {
    if (isalnum((unsigned char)ch) || ch == '-' || ch == '_' || ch == '.') {
      o += ch;
    } else {
      o += '_';
    }
  }
  if (o.size() > 80) o.resize(80);
  return o;
}

static void mkdir_p(const std::string& path) {
  std::string cur;
  for (size_t i = 0; i <= path.size(); i++) {
    if (i == path.size() || path[i] == '/') {
      if (!cur.empty()) mkdir(cur.c_str(), 0755);
    }
    if (i < path.size()) cur += path[i];
  }
}

static std::string write_replay_file(const std::string& dir, const Engine& e, const Outcome& o, uint64_t seed, uint64_t idx,
    const ShrinkStats& st, size_t original_len, const TapeSpec& spec) {
  mkdir_p(dir);
  std::string path = dir + "/" + sanitize_filename(o.cls) + "-" + sanitize_filename(o.key) + strprintf("-%llu-%llu.json", (unsigned long long)seed, (unsigned long long)idx);
  FILE* f = fopen(path.c_str(), "w");
  if (!f) harness_bug("cannot write replay file " + path);
  fprintf(f, "{\n \"property\": %s,\n \"engine\": %s,\n", jstr(e.property).c_str(), jstr(e.name).c_str());
  fprintf(f, " \"class\": %s,\n \"key\": %s,\n", jstr(o.cls).c_str(), jstr(o.key).c_str());
  fprintf(f, " \"message\": %s,\n", jstr(o.msg).c_str());
  fprintf(f, " \"seed\": %llu,\n \"run_index\": %llu,\n", (unsigned long long)seed, (unsigned long long)idx);
  fprintf(f, " \"hash\": \"%016llx\",\n", (unsigned long long)o.hash);
  fprintf(f, " \"original_tape_length\": %zu,\n \"shrink_attempts\": %d,\n", original_len, st.attempts);
  fprintf(f, " \"warmup\": [%llu, %llu, %llu, %llu],\n", (unsigned long long)spec.warm_seed, (unsigned long long)spec.warm_start,
      (unsigned long long)spec.warm_stride, (unsigned long long)spec.warm_count);
  fprintf(f, " \"tape\": [");
  for (size_t i = 0; i < o.tape.size(); i++) fprintf(f, "%s%u", i ? "," : "", o.tape[i]);
  fprintf(f, "],\n \"tape_annotated\": [");
  for (size_t i = 0; i < o.tape_annot.size(); i++) fprintf(f, "%s%s", i ? ", " : "", jstr(o.tape_annot[i]).c_str());
  fprintf(f, "],\n \"trace\": [\n");
  for (size_t i = 0; i < o.trace.size(); i++) fprintf(f, "  %s%s\n", jstr(o.trace[i]).c_str(), i + 1 < o.trace.size() ? "," : "");
  fprintf(f, " ],\n \"replay_cmd\": %s\n}\n", jstr(std::string("bin/check ") + e.property + " --replay " + path).c_str());
  fclose(f);
  return path;
}

// ------------------------------------------------------------------ replay mode

static bool load_replay(const std::string& path, std::vector<uint32_t>& tape, std::string& cls, std::string& key, std::string& hash, TapeSpec& spec) {
  std::string text = read_file_head(path, 64 << 20);
  jsonmin::Value v;
  std::string err;
  if (text.empty() || !jsonmin::parse(text, v, err)) {
    fprintf(stderr, "vsim: cannot parse replay file %s: %s\n", path.c_str(), err.c_str());
    return false;
  }
  const jsonmin::Value* t = v.get("tape");
  if (!t || !t->is_array()) return false;
  for (auto& x : t->arr) tape.push_back((uint32_t)x.num);
  cls = v.get_str("class");
  key = v.get_str("key");
  hash = v.get_str("hash");
  const jsonmin::Value* wu = v.get("warmup");
  if (wu && wu->is_array() && wu->arr.size() == 4) {
    spec.warm_seed = (uint64_t)wu->arr[0].num;
    spec.warm_start = (uint64_t)wu->arr[1].num;
    spec.warm_stride = (uint64_t)wu->arr[2].num;
    spec.warm_count = (uint64_t)wu->arr[3].num;
  }
  return true;
}

// Executes `self --replay file` in a fresh process and returns its "REPLAY-RESULT" line.
static std::string fresh_process_replay(const std::string& self, const std::string& file, const std::vector<std::string>& pass_args) {
  int fds[2];
  if (pipe(fds)) harness_bug("pipe failed");
  fflush(stdout);
  pid_t pid = fork();
  if (pid == 0) {
    close(fds[0]);
    dup2(fds[1], 1);
    close(fds[1]);
    std::vector<const char*> argv;
    argv.push_back(self.c_str());
    for (auto& a : pass_args) argv.push_back(a.c_str());
    argv.push_back("--replay");
    argv.push_back(file.c_str());
    argv.push_back(nullptr);
    execv(self.c_str(), (char* const*)argv.data());
    _exit(127);
  }
  close(fds[1]);
  std::string out;
  char tmp[4096];
  ssize_t n;
  while ((n = read(fds[0], tmp, sizeof(tmp))) > 0 || (n < 0 && errno == EINTR)) {
    if (n > 0) out.append(tmp, n);
  }
  close(fds[0]);
  int status;
  while (waitpid(pid, &status, 0) < 0 && errno == EINTR) {
  }
  size_t p = out.find("REPLAY-RESULT ");
  if (p == std::string::npos) return "";
  size_t e = out.find('\n', p);
  return out.substr(p, e == std::string::npos ? std::string::npos : e - p);
}

// ------------------------------------------------------------------ driver

struct Candidate {
  uint64_t idx;
  std::string cls, key; // as reported by the worker ("" for crashes until re-evaluated)
  bool crash;
  uint64_t hist_start = 0, hist_count = 0; // worker history before the dying run (crash candidates)
};

static bool is_fault_counter(const std::string& n) { return n.rfind("fault:", 0) == 0; }
static bool is_probe_counter(const std::string& n) { return n.rfind("probe:", 0) == 0; }

int driver_main(int argc, char** argv, const Engine& e) {
  g_engine = &e;
  signal(SIGPIPE, SIG_IGN);
  std::string self = argv[0];
  {
    char buf[4096];
    ssize_t n = readlink("/proc/self/exe", buf, sizeof(buf) - 1);
    if (n > 0) {
      buf[n] = 0;
      self = buf;
    }
  }
  std::string verif_root = getenv("VERIF_ROOT") ? getenv("VERIF_ROOT") : "/verif";

  const char* env_tier = getenv("VERIF_TIER");
  if (env_tier && *env_tier) g_tier = env_tier;
  uint64_t seed = 20260101;
  const char* env_seed = getenv("VERIF_SEED");
  if (env_seed && *env_seed) seed = strtoull(env_seed, nullptr, 0);
  int64_t runs = -1;
  unsigned workers = 0;
  std::string evidence_path, replay_file, replay_dir, known_path, hashlog_path;
  int64_t one_idx = -1;
  double cap_override = -1;
  bool no_shrink = false;
  std::vector<std::pair<std::string, std::string>> embeds; // name -> path of a JSON file to embed into coverage

  for (int i = 1; i < argc; i++) {
    std::string a = argv[i];
    auto next = [&]() -> std::string {
      if (i + 1 >= argc) {
        fprintf(stderr, "missing value for %s\n", a.c_str());
        exit(2);
      }
      return argv[++i];
    };
    if (a == "--tier") g_tier = next();
    else if (a == "--seed") seed = strtoull(next().c_str(), nullptr, 0);
    else if (a == "--runs") runs = strtoll(next().c_str(), nullptr, 0);
    else if (a == "--workers") workers = atoi(next().c_str());
    else if (a == "--evidence") evidence_path = next();
    else if (a == "--replay") replay_file = next();
    else if (a == "--replay-dir") replay_dir = next();
    else if (a == "--known") known_path = next();
    else if (a == "--hash-log") hashlog_path = next();
    else if (a == "--one") one_idx = strtoll(next().c_str(), nullptr, 0);
    else if (a == "--cap") cap_override = atof(next().c_str());
    else if (a == "--no-shrink") no_shrink = true;
    else if (a == "--embed") {
      std::string v = next();
      size_t eq = v.find('=');
      if (eq == std::string::npos) {
        fprintf(stderr, "--embed wants name=path\n");
        return 2;
      }
      embeds.emplace_back(v.substr(0, eq), v.substr(eq + 1));
    }
    else {
      fprintf(stderr, "unknown argument %s\n", a.c_str());
      return 2;
    }
  }
  if (g_tier != "quick" && g_tier != "thorough") {
    fprintf(stderr, "bad tier %s\n", g_tier.c_str());
    return 2;
  }
  if (evidence_path.empty()) evidence_path = verif_root + "/evidence/" + e.property + ".json";
  if (replay_dir.empty()) replay_dir = verif_root + "/replays/" + e.property;
  if (known_path.empty()) known_path = verif_root + "/known_findings.json";
  if (runs < 0) runs = (g_tier == "quick") ? e.quick_runs : e.thorough_runs;
  double cap_s = cap_override > 0 ? cap_override : ((g_tier == "quick") ? e.quick_cap_s : e.thorough_cap_s);
  if (!workers) {
    const char* w = getenv("VERIF_WORKERS");
    workers = w ? atoi(w) : 0;
    if (!workers) {
      long n = sysconf(_SC_NPROCESSORS_ONLN);
      workers = n > 0 ? n : 4;
    }
    workers = std::min(workers, e.max_workers);
  }
  if (workers < 1) workers = 1;
  if ((uint64_t)workers > (uint64_t)std::max<int64_t>(runs, 1)) workers = std::max<int64_t>(runs, 1);

  if (e.process_init) e.process_init();

  g_eval_slot = (Slot*)shared_alloc(sizeof(Slot));

  // ---------------- replay mode
  if (!replay_file.empty()) {
    std::vector<uint32_t> tape;
    std::string cls, key, hash;
    TapeSpec sp;
    if (!load_replay(replay_file, tape, cls, key, hash, sp)) return 2;
    sp.replay = true;
    sp.tape = tape;
    Outcome o = eval_forked(sp, true, sp.warm_count ? 60.0 : 10.0);
    printf("REPLAY-RESULT kind=%d class=%s key=%s hash=%016llx\n", (int)o.kind, o.cls.c_str(), o.key.c_str(), (unsigned long long)o.hash);
    for (auto& l : o.trace) printf("  | %s\n", l.c_str());
    if (o.kind == Outcome::VIOLATION || o.kind == Outcome::CRASH || o.kind == Outcome::TIMEOUT) {
      printf("message: %s\n", o.msg.c_str());
      bool same = (o.cls == cls && o.key == key);
      printf("%s\n", same ? "reproduced: same violation class and key as recorded" : "reproduced a DIFFERENT violation than recorded");
      printf("VIOLATION property=%s replay=%s\n", e.property, replay_file.c_str());
      remove_work_dir();
      return 1;
    }
    printf("not reproduced: the recorded tape no longer violates the property\n");
    remove_work_dir();
    return 0;
  }

  // ---------------- single verbose run
  if (one_idx >= 0) {
    TapeSpec sp;
    sp.seed = seed;
    sp.idx = one_idx;
    Outcome o = eval_forked(sp, true);
    printf("run %lld kind=%d class=%s key=%s hash=%016llx nontrivial=%d tape_len=%zu\n", (long long)one_idx, (int)o.kind,
        o.cls.c_str(), o.key.c_str(), (unsigned long long)o.hash, (int)o.nontrivial, o.tape.size());
    for (auto& l : o.trace) printf("  | %s\n", l.c_str());
    if (!o.msg.empty()) printf("message: %s\n", o.msg.c_str());
    remove_work_dir();
    return o.kind == Outcome::OK ? 0 : 1;
  }

  // ---------------- batch
  double t0 = wall_now();
  std::vector<Slot*> slots(workers);
  uint64_t per_worker = (runs + workers - 1) / workers + 1;
  for (unsigned k = 0; k < workers; k++) {
    slots[k] = (Slot*)shared_alloc(sizeof(Slot));
    slots[k]->hashes = (HashRec*)shared_alloc(sizeof(HashRec) * per_worker);
    slots[k]->hash_cap = per_worker;
    slots[k]->next_idx = k;
  }
  std::vector<pid_t> pids(workers, -1);
  std::vector<int> restarts(workers, 0);
  std::vector<Candidate> cands;
  std::string wd = work_dir();

  auto spawn = [&](unsigned k) {
    fflush(stdout);
    fflush(stderr);
    pid_t pid = fork();
    if (pid < 0) harness_bug("fork failed");
    if (pid == 0) {
      std::string errpath = wd + strprintf("/worker-%u.err", k);
      int efd = open(errpath.c_str(), O_CREAT | O_APPEND | O_WRONLY, 0600);
      if (efd >= 0) {
        dup2(efd, 2);
        close(efd);
      }
      g_slot = slots[k];
      g_cc.n = 0;
      g_keep_events = false;
      Slot* s = g_slot;
      s->spawn_start = s->next_idx;
      uint64_t n_in_proc = 0;
      signal(SIGALRM, SIG_DFL);
      for (uint64_t idx = s->next_idx; idx < (uint64_t)runs; idx += workers) {
        if ((n_in_proc & 31) == 0) alarm(e.watchdog_s); // watchdog: 32 runs that take this long mean one of them hangs
        if ((n_in_proc++ & 15) == 0 && wall_now() - t0 > cap_s) {
          s->capped = 1;
          break;
        }
        s->cur_idx = idx;
        s->in_run = 1;
        TapeSpec sp;
        sp.seed = seed;
        sp.idx = idx;
        Outcome o = run_one(sp, false);
        s->in_run = 0;
        s->next_idx = idx + workers;
        s->done = s->done + 1;
        s->sim_time_us += o.sim_time_us;
        if (s->nhash < s->hash_cap) {
          HashRec& h = s->hashes[s->nhash];
          h.idx = idx;
          h.hash = o.hash;
          h.flags = (o.nontrivial ? 1 : 0) | (o.kind == Outcome::VIOLATION ? 2 : 0);
          s->nhash = s->nhash + 1;
        }
        if (o.nontrivial) {
          s->nontrivial_runs++;
          if (s->n_nt_samples < (uint64_t)MAX_NT_SAMPLES) s->nt_samples[s->n_nt_samples++] = idx;
        }
        if (o.kind == Outcome::VIOLATION) {
          if (s->nviol < (uint64_t)MAX_SLOT_VIOL) {
            SlotViolation& v = s->viol[s->nviol];
            v.idx = idx;
            v.hash = o.hash;
            strncpy(v.cls, o.cls.c_str(), sizeof(v.cls) - 1);
            strncpy(v.key, o.key.c_str(), sizeof(v.key) - 1);
            s->nviol = s->nviol + 1;
          } else {
            s->viol_overflow++;
          }
        }
      }
      if (__llvm_profile_write_file) __llvm_profile_write_file();
      _exit(0);
    }
    pids[k] = pid;
  };

  for (unsigned k = 0; k < workers; k++) spawn(k);
  unsigned alive = workers;
  uint64_t crash_count = 0;
  bool storm = false;
  while (alive > 0) {
    int status = 0;
    pid_t pid = waitpid(-1, &status, 0);
    if (pid < 0) {
      if (errno == EINTR) continue;
      break;
    }
    unsigned k = 0;
    for (; k < workers; k++)
      if (pids[k] == pid) break;
    if (k == workers) continue;
    pids[k] = -1;
    alive--;
    if (WIFEXITED(status) && WEXITSTATUS(status) == 0) continue;
    if (WIFEXITED(status) && WEXITSTATUS(status) == 2) {
      std::string err = read_file_tail(wd + strprintf("/worker-%u.err", k), 4000);
      fprintf(stderr, "vsim: worker %u reported a harness bug:\n%s\n", k, err.c_str());
      for (auto p : pids)
        if (p > 0) kill(p, SIGKILL);
      remove_work_dir();
      return 2;
    }
    // abnormal death: attribute to the announced run
    Slot* s = slots[k];
    if (storm && WIFSIGNALED(status) && WTERMSIG(status) == SIGKILL) continue; // stopped by us
    crash_count++;
    uint64_t idx = s->cur_idx;
    {
      Candidate cd{idx, "", "", true};
      cd.hist_start = s->spawn_start;
      cd.hist_count = idx >= s->spawn_start ? (idx - s->spawn_start) / workers : 0;
      cands.push_back(cd);
    }
    s->next_idx = idx + workers;
    s->in_run = 0;
    if (crash_count >= 16) {
      // plenty of dying runs already: stop the batch, the candidates collected so far are judged
      if (!storm) {
        storm = true;
        for (auto p : pids)
          if (p > 0) kill(p, SIGKILL);
      }
      continue;
    }
    if (restarts[k] < 200 && s->next_idx < (uint64_t)runs && wall_now() - t0 < cap_s) {
      restarts[k]++;
      spawn(k);
      alive++;
    }
  }
  double t_batch = wall_now() - t0;

  // ---------------- merge
  uint64_t done = 0, sim_time_us = 0, nontrivial_runs = 0, viol_overflow = 0;
  bool capped = false;
  std::map<std::string, uint64_t> counters;
  std::vector<HashRec> all;
  std::vector<uint64_t> nt_samples;
  for (unsigned k = 0; k < workers; k++) {
    Slot* s = slots[k];
    done += s->done;
    sim_time_us += s->sim_time_us;
    nontrivial_runs += s->nontrivial_runs;
    viol_overflow += s->viol_overflow;
    capped |= s->capped != 0;
    for (uint64_t i = 0; i < s->ncounters; i++) counters[s->cname[i]] += s->cval[i];
    for (uint64_t i = 0; i < s->nhash; i++) all.push_back(s->hashes[i]);
    for (uint64_t i = 0; i < s->nviol; i++) cands.push_back({s->viol[i].idx, s->viol[i].cls, s->viol[i].key, false});
    for (uint64_t i = 0; i < s->n_nt_samples; i++) nt_samples.push_back(s->nt_samples[i]);
  }
  std::sort(all.begin(), all.end(), [](const HashRec& a, const HashRec& b) { return a.idx < b.idx; });
  if (!hashlog_path.empty()) {
    FILE* f = fopen(hashlog_path.c_str(), "w");
    if (f) {
      for (auto& h : all) fprintf(f, "%llu %016llx %llu\n", (unsigned long long)h.idx, (unsigned long long)h.hash, (unsigned long long)h.flags);
      fclose(f);
    }
  }
  uint64_t distinct_nontrivial = 0, distinct_all = 0;
  {
    std::vector<uint64_t> hs, hn;
    hs.reserve(all.size());
    for (auto& h : all) {
      hs.push_back(h.hash);
      if (h.flags & 1) hn.push_back(h.hash);
    }
    std::sort(hs.begin(), hs.end());
    distinct_all = std::unique(hs.begin(), hs.end()) - hs.begin();
    std::sort(hn.begin(), hn.end());
    distinct_nontrivial = std::unique(hn.begin(), hn.end()) - hn.begin();
  }

  // ---------------- violations: gate, classify, shrink, replay
  std::vector<Known> known = load_known(known_path);
  std::sort(cands.begin(), cands.end(), [](const Candidate& a, const Candidate& b) { return a.idx < b.idx; });
  struct Group {
    std::string cls, key;
    uint64_t idx;
    uint64_t count;
    Outcome outcome;
    uint64_t hist_start = 0, hist_count = 0; // reproduces only after this worker history (see TapeSpec)
  };
  std::vector<std::string> unreproduced;
  std::vector<std::string> info_notes;
  std::vector<Group> groups;
  // candidates that reproduce only after re-creating a worker's history form their own groups, so that an
  // unreliable representative never shadows members of the same class that reproduce in a fresh process
  auto find_group = [&](const std::string& cls, const std::string& key, bool needs_history) -> Group* {
    for (auto& g : groups)
      if (g.cls == cls && g.key == key && (g.hist_count > 0) == needs_history) return &g;
    return nullptr;
  };
  int crash_evals = 0;
  int max_crash_evals = 24;
  bool harness_fault = false;
  std::string harness_fault_msg;
  for (auto& c : cands) {
    if (c.crash) {
      if (crash_evals >= max_crash_evals) continue;
      crash_evals++;
      TapeSpec sp;
      sp.seed = seed;
      sp.idx = c.idx;
      Outcome o = eval_forked(sp, true, 10.0);
      bool needs_history = false;
      if (o.kind == Outcome::OK && c.hist_count > 0) {
        // the report may depend on the state the worker had accumulated: re-create its history first
        sp.warm_seed = seed;
        sp.warm_start = c.hist_start;
        sp.warm_stride = workers;
        sp.warm_count = c.hist_count;
        o = eval_forked(sp, true, 60.0);
        needs_history = o.kind != Outcome::OK;
      }
      if (o.kind == Outcome::OK) {
        unreproduced.push_back(strprintf("worker died during run %llu but neither a fresh evaluation nor a re-creation of the worker's history reproduces it", (unsigned long long)c.idx));
        continue;
      }
      if (!needs_history) c.hist_count = 0;
      if (o.kind == Outcome::TIMEOUT) max_crash_evals = std::min(max_crash_evals, 3); // each hang costs the watchdog time
      c.cls = o.cls;
      c.key = o.key;
    }
    Group* g = find_group(c.cls, c.key, c.crash && c.hist_count > 0);
    if (g) {
      g->count++;
      continue;
    }
    Group ng{c.cls, c.key, c.idx, 1, Outcome()};
    if (c.crash && c.hist_count) {
      ng.hist_start = c.hist_start;
      ng.hist_count = c.hist_count;
    }
    groups.push_back(ng);
  }

  int unknown_violations = 0;
  int reported = 0;
  int hang_groups = 0;
  std::vector<std::string> violation_lines, known_lines;
  for (auto& g : groups) {
    // gate: two fresh evaluations must agree with each other and with the worker's report
    TapeSpec sp;
    sp.seed = seed;
    sp.idx = g.idx;
    if (g.hist_count) {
      sp.warm_seed = seed;
      sp.warm_start = g.hist_start;
      sp.warm_stride = workers;
      sp.warm_count = g.hist_count;
    }
    bool is_hang = g.cls.rfind("hang/", 0) == 0;
    if (is_hang && ++hang_groups > 2) {
      // every confirmation of a hang costs the watchdog time; two fully processed groups are enough
      unknown_violations++;
      continue;
    }
    Outcome o1 = eval_forked(sp, true, 10.0);
    Outcome o2 = is_hang ? o1 : eval_forked(sp, true, 10.0);
    if (!g.hist_count && !is_hang && !same_violation(o1, g.cls, g.key)) {
      bool agree = o1.kind != Outcome::OK && o2.kind != Outcome::OK && o1.cls == o2.cls && o1.key == o2.key && o1.hash == o2.hash && o1.tape == o2.tape;
      if (agree) {
        // The run violates deterministically in a fresh process, but under another class than inside the
        // long-lived worker: the code under test keeps state across calls (a static cache, say), so what the
        // worker saw depended on its earlier runs. The fresh-process class is the reproducible one.
        info_notes.push_back(strprintf("run %llu was reported as %s [%s] inside a long-lived worker and is %s [%s] in a fresh process; the fresh-process result is used", (unsigned long long)g.idx,
            g.cls.c_str(), g.key.c_str(), o1.cls.c_str(), o1.key.c_str()));
        bool seen = false;
        for (auto& h : groups) seen |= (&h != &g && h.cls == o1.cls && h.key == o1.key && h.hist_count == 0);
        if (seen) continue;
        g.cls = o1.cls;
        g.key = o1.key;
      } else if (o1.kind == Outcome::OK && o2.kind == Outcome::OK) {
        // not a violation in a fresh process: re-create the history of the worker that reported it
        sp.warm_seed = seed;
        sp.warm_start = g.idx % (uint64_t)workers;
        sp.warm_stride = workers;
        sp.warm_count = g.idx / (uint64_t)workers;
        o1 = eval_forked(sp, true, 90.0);
        o2 = eval_forked(sp, true, 90.0);
        if (same_violation(o1, g.cls, g.key) && same_violation(o2, g.cls, g.key)) {
          g.hist_start = sp.warm_start;
          g.hist_count = sp.warm_count;
          info_notes.push_back(strprintf("run %llu: %s [%s] needs the %llu earlier runs of its worker to show (state kept by the code under test across calls)", (unsigned long long)g.idx, g.cls.c_str(),
              g.key.c_str(), (unsigned long long)sp.warm_count));
        }
      }
    }
    if (g.hist_count && !(same_violation(o1, g.cls, g.key) && same_violation(o2, g.cls, g.key))) {
      // a sanitizer report that needed the worker's accumulated state and does not come back reliably even
      // when that history is re-created (ThreadSanitizer keeps a bounded, pseudo-randomly evicted access
      // history): noted, never reported as a violation without a reproducing replay
      unreproduced.push_back(strprintf("run %llu: %s [%s] was reported inside a long-lived worker but does not reproduce reliably", (unsigned long long)g.idx, g.cls.c_str(), g.key.c_str()));
      continue;
    }
    bool gate_ok = same_violation(o1, g.cls, g.key) && same_violation(o2, g.cls, g.key) && o1.hash == o2.hash && o1.tape == o2.tape;
    if (!gate_ok && (o1.os_timing || o2.os_timing)) {
      // Part of this run (a second caller running a real, unsimulated call) was timed by the operating system.
      // On the unchanged tree that part cannot influence the simulated one; in a changed tree it may, and then
      // the verdict of this one run can differ between executions. Not a reproducible violation: a note.
      unreproduced.push_back(strprintf("run %llu: %s [%s] involves an unsimulated second caller and does not reproduce identically (the change under test lets that caller's real timing leak into the simulated call)", (unsigned long long)g.idx, g.cls.c_str(), g.key.c_str()));
      continue;
    }
    if (!gate_ok) {
      harness_fault = true;
      harness_fault_msg = strprintf("determinism gate failed for run %llu: worker said %s [%s]; re-evaluations gave kind=%d %s [%s] hash=%016llx and kind=%d %s [%s] hash=%016llx",
          (unsigned long long)g.idx, g.cls.c_str(), g.key.c_str(), (int)o1.kind, o1.cls.c_str(), o1.key.c_str(), (unsigned long long)o1.hash,
          (int)o2.kind, o2.cls.c_str(), o2.key.c_str(), (unsigned long long)o2.hash);
      continue;
    }
    g.outcome = o1;
    const Known* k = match_known(known, e.property, g.cls, g.key);
    if (k) {
      known_lines.push_back(strprintf("KNOWN-FINDING: property=%s %s [class=%s key=%s first_run=%llu occurrences=%llu]", e.property, k->what.c_str(),
          g.cls.c_str(), g.key.c_str(), (unsigned long long)g.idx, (unsigned long long)g.count));
      continue;
    }
    unknown_violations++;
    if (reported >= 6) continue;
    reported++;
    // shrink
    ShrinkStats st;
    std::vector<uint32_t> tape = o1.tape;
    size_t original_len = tape.size();
    if (!no_shrink && reported <= 3 && !is_hang && !g.hist_count) {
      tape = shrink_tape(tape, g.cls, g.key, 1500, 25.0, st);
    }
    TapeSpec rp;
    rp.replay = true;
    rp.tape = tape;
    rp.warm_seed = sp.warm_seed;
    rp.warm_start = sp.warm_start;
    rp.warm_stride = sp.warm_stride;
    rp.warm_count = sp.warm_count;
    Outcome fin = is_hang ? o1 : eval_forked(rp, true, 10.0);
    if (!same_violation(fin, g.cls, g.key)) {
      // shrinking must preserve the violation; fall back to the original tape
      rp.tape = o1.tape;
      fin = eval_forked(rp, true);
      if (!same_violation(fin, g.cls, g.key)) {
        if (o1.os_timing) {
          unreproduced.push_back(strprintf("run %llu: %s [%s] involves an unsimulated second caller and its recorded tape does not reproduce it", (unsigned long long)g.idx, g.cls.c_str(), g.key.c_str()));
          unknown_violations--;
          continue;
        }
        harness_fault = true;
        harness_fault_msg = strprintf("replay of recorded tape for run %llu does not reproduce %s", (unsigned long long)g.idx, g.cls.c_str());
        continue;
      }
    }
    if (fin.tape.empty()) fin.tape = rp.tape;
    std::string path = write_replay_file(replay_dir, e, fin, seed, g.idx, st, original_len, rp);
    // fresh-process replay must reproduce exactly
    std::string line = fresh_process_replay(self, path, {});
    std::string want = strprintf("class=%s key=%s hash=%016llx", fin.cls.c_str(), fin.key.c_str(), (unsigned long long)fin.hash);
    if (line.find(want) == std::string::npos) {
      if (o1.os_timing && !g.hist_count) {
        unreproduced.push_back(strprintf("run %llu: %s [%s] involves an unsimulated second caller and does not reproduce in a freshly started process", (unsigned long long)g.idx, g.cls.c_str(), g.key.c_str()));
        unlink(path.c_str());
        unknown_violations--;
        continue;
      }
      if (g.hist_count) {
        // needed the worker's history and does not survive a change of process image: a note, not a verdict
        unreproduced.push_back(strprintf("run %llu: %s [%s] reproduced in forked evaluators after re-creating the worker's history but not in a freshly started process", (unsigned long long)g.idx, g.cls.c_str(), g.key.c_str()));
        unlink(path.c_str());
        unknown_violations--;
        continue;
      }
      harness_fault = true;
      harness_fault_msg = "fresh-process replay of " + path + " gave '" + line + "', wanted '" + want + "'";
      continue;
    }
    violation_lines.push_back(strprintf("VIOLATION property=%s replay=%s", e.property, path.c_str()));
    printf("violation class=%s key=%s first_run=%llu occurrences=%llu tape %zu -> %zu values (%d shrink attempts)\n  %s\n", g.cls.c_str(), g.key.c_str(),
        (unsigned long long)g.idx, (unsigned long long)g.count, original_len, fin.tape.size(), st.attempts, fin.msg.c_str());
  }

  // ---------------- samples for evidence
  std::vector<std::pair<uint64_t, Outcome>> samples;
  {
    std::set<uint64_t> want = {0, 1};
    std::sort(nt_samples.begin(), nt_samples.end());
    for (size_t i = 0; i < nt_samples.size() && want.size() < 4; i++) want.insert(nt_samples[i]);
    for (uint64_t idx : want) {
      if (idx >= (uint64_t)runs) continue;
      bool is_cand = false;
      for (auto& c : cands) is_cand |= c.idx == idx;
      if (is_cand) continue;
      TapeSpec sp;
      sp.seed = seed;
      sp.idx = idx;
      Outcome o = eval_forked(sp, true);
      if (o.kind != Outcome::OK) continue;
      // gate on samples too: the hash must equal what the worker logged
      for (auto& h : all) {
        if (h.idx == idx && h.hash != o.hash) {
          harness_fault = true;
          harness_fault_msg = strprintf("sample run %llu hashed %016llx in the worker and %016llx in a fresh process", (unsigned long long)idx,
              (unsigned long long)h.hash, (unsigned long long)o.hash);
        }
      }
      samples.push_back({idx, o});
    }
  }

  double wall = wall_now() - t0;

  // ---------------- evidence
  {
    mkdir_p(evidence_path.substr(0, evidence_path.rfind('/')));
    std::string tmp = evidence_path + ".tmp";
    FILE* f = fopen(tmp.c_str(), "w");
    if (!f) harness_bug("cannot write evidence " + tmp);
    fprintf(f, "{\n \"property_id\": %s,\n \"tier\": %s,\n \"seed\": %llu,\n \"level\": \"exploration\",\n", jstr(e.property).c_str(), jstr(g_tier).c_str(),
        (unsigned long long)seed);
    fprintf(f, " \"engine\": %s,\n \"technique\": %s,\n", jstr(e.name).c_str(), jstr(e.technique).c_str());
    fprintf(f, " \"coverage\": {\n");
    fprintf(f, "  \"evaluations\": %llu,\n  \"distinct_nontrivial\": %llu,\n  \"distinct_event_log_hashes\": %llu,\n  \"nontrivial_runs\": %llu,\n",
        (unsigned long long)(done + crash_count), (unsigned long long)distinct_nontrivial, (unsigned long long)distinct_all, (unsigned long long)nontrivial_runs);
    fprintf(f, "  \"rule\": %s,\n", jstr(e.rule).c_str());
    fprintf(f, "  \"exhaustive\": false,\n");
    fprintf(f, "  \"runs_requested\": %lld,\n  \"stopped_by_wall_clock_cap\": %s,\n", (long long)runs, capped ? "true" : "false");
    fprintf(f, "  \"runs_per_hour\": %.0f,\n", t_batch > 0 ? (done + crash_count) * 3600.0 / t_batch : 0.0);
    fprintf(f, "  \"simulated_time_s\": %.6f,\n", sim_time_us / 1e6);
    fprintf(f, "  \"seeds\": %s,\n", jstr(strprintf("base seed %llu; run i uses PRNG stream mix(seed, i, property); indices 0..%lld", (unsigned long long)seed, (long long)runs - 1)).c_str());
    fprintf(f, "  \"workers\": %u,\n  \"worker_deaths\": %llu,\n", workers, (unsigned long long)crash_count);
    fprintf(f, "  \"faults_fired\": {");
    {
      bool first = true;
      for (auto& kv : counters)
        if (is_fault_counter(kv.first)) {
          fprintf(f, "%s%s: %llu", first ? "" : ", ", jstr(kv.first.substr(6)).c_str(), (unsigned long long)kv.second);
          first = false;
        }
    }
    fprintf(f, "},\n  \"probes\": {");
    {
      bool first = true;
      for (auto& ep : e.expected_probes)
        if (!counters.count(std::string("probe:") + ep)) counters[std::string("probe:") + ep] = 0;
      for (auto& ef : e.expected_faults)
        if (!counters.count(std::string("fault:") + ef)) counters[std::string("fault:") + ef] = 0;
      for (auto& kv : counters)
        if (is_probe_counter(kv.first)) {
          fprintf(f, "%s%s: %llu", first ? "" : ", ", jstr(kv.first.substr(6)).c_str(), (unsigned long long)kv.second);
          first = false;
        }
    }
    fprintf(f, "},\n  \"counters\": {");
    {
      bool first = true;
      for (auto& kv : counters)
        if (!is_probe_counter(kv.first) && !is_fault_counter(kv.first)) {
          fprintf(f, "%s%s: %llu", first ? "" : ", ", jstr(kv.first).c_str(), (unsigned long long)kv.second);
          first = false;
        }
    }
    fprintf(f, "},\n  \"components\": {");
    for (size_t i = 0; i < e.components.size(); i++)
      fprintf(f, "%s%s: %s", i ? ", " : "", jstr(e.components[i].first).c_str(), jstr(e.components[i].second).c_str());
    fprintf(f, "},\n");
    for (auto& em : embeds) {
      std::string text = read_file_head(em.second, 8 << 20);
      jsonmin::Value tmpv;
      std::string perr;
      while (!text.empty() && (text.back() == '\n' || text.back() == ' ')) text.pop_back();
      if (!text.empty() && jsonmin::parse(text, tmpv, perr)) fprintf(f, "  %s: %s,\n", jstr(em.first).c_str(), text.c_str());
      else fprintf(f, "  %s: null,\n", jstr(em.first).c_str());
    }
    if (e.extra_evidence_json) {
      std::string x = e.extra_evidence_json();
      if (!x.empty()) fprintf(f, "  %s,\n", x.c_str());
    }
    fprintf(f, "  \"samples\": [\n");
    if (samples.empty()) {
      fprintf(f, "   {\"note\": \"no clean sample run could be rendered\"}\n");
    }
    for (size_t i = 0; i < samples.size(); i++) {
      auto& o = samples[i].second;
      fprintf(f, "   {\"run_index\": %llu, \"hash\": \"%016llx\", \"nontrivial\": %s, \"tape_length\": %zu, \"trace\": [", (unsigned long long)samples[i].first,
          (unsigned long long)o.hash, o.nontrivial ? "true" : "false", o.tape.size());
      size_t lim = std::min<size_t>(o.trace.size(), 60);
      for (size_t j = 0; j < lim; j++) fprintf(f, "%s%s", j ? ", " : "", jstr(o.trace[j]).c_str());
      if (o.trace.size() > lim) fprintf(f, ", %s", jstr(strprintf("... %zu more events", o.trace.size() - lim)).c_str());
      fprintf(f, "]}%s\n", i + 1 < samples.size() ? "," : "");
    }
    fprintf(f, "  ]\n },\n");
    fprintf(f, " \"assumptions\": [");
    for (size_t i = 0; i < e.assumptions.size(); i++) fprintf(f, "%s%s", i ? ", " : "", jstr(e.assumptions[i]).c_str());
    fprintf(f, "],\n");
    fprintf(f, " \"known_findings_seen\": [");
    for (size_t i = 0; i < known_lines.size(); i++) fprintf(f, "%s%s", i ? ", " : "", jstr(known_lines[i]).c_str());
    fprintf(f, "],\n");
    fprintf(f, " \"violations\": %d,\n \"harness_fault\": %s,\n \"wall_s\": %.3f\n}\n", unknown_violations, harness_fault ? "true" : "false", wall);
    fclose(f);
    rename(tmp.c_str(), evidence_path.c_str());
  }

  // ---------------- report
  printf("%s %s tier=%s seed=%llu runs=%llu/%lld distinct_nontrivial=%llu sim_time=%.1fs wall=%.1fs workers=%u%s\n", e.property, e.name, g_tier.c_str(),
      (unsigned long long)seed, (unsigned long long)(done + crash_count), (long long)runs, (unsigned long long)distinct_nontrivial, sim_time_us / 1e6, wall, workers,
      capped ? " (stopped by wall-clock cap)" : "");
  {
    std::string fl = "  faults fired:";
    for (auto& kv : counters)
      if (is_fault_counter(kv.first)) fl += strprintf(" %s=%llu", kv.first.c_str() + 6, (unsigned long long)kv.second);
    printf("%s\n", fl.c_str());
    std::string pl = "  probes:";
    for (auto& kv : counters)
      if (is_probe_counter(kv.first)) pl += strprintf(" %s=%llu", kv.first.c_str() + 6, (unsigned long long)kv.second);
    printf("%s\n", pl.c_str());
  }
  for (auto& l : known_lines) printf("%s\n", l.c_str());
  remove_work_dir();
  for (auto& u : info_notes) printf("note: %s\n", u.c_str());
  for (auto& u : unreproduced) printf("note: %s\n", u.c_str());
  if (!unreproduced.empty() && unknown_violations == 0 && !harness_fault) {
    harness_fault = true;
    harness_fault_msg = unreproduced[0];
  }
  if (harness_fault) {
    fprintf(stderr, "HARNESS-FAULT (not a property verdict): %s\n", harness_fault_msg.c_str());
    return 2;
  }
  if (viol_overflow) printf("note: %llu further violating runs were not individually recorded\n", (unsigned long long)viol_overflow);
  for (auto& l : violation_lines) printf("%s\n", l.c_str());
  if (unknown_violations > 0) {
    if (violation_lines.empty()) printf("VIOLATION property=%s replay=%s\n", e.property, replay_dir.c_str());
    return 1;
  }
  printf("OK property=%s held on everything explored\n", e.property);
  return 0;
}

} // namespace vsim
