// vfs: the simulated kernel side for descriptor, stream and directory calls (DESIGN.md §3.3).
//
// Linked into engines together with -Wl,--wrap=<sym> for every symbol in vfs_wrap.list.
// Calls on virtual descriptors (numbers >= FD_BASE), on paths under /sim/ and on /dev/urandom
// are served here; everything else is passed to the real libc. FILE* arguments are made with
// fopencookie over the same objects.
//
// Every return value that a real kernel could legally vary (how many bytes, EINTR, EIO, ENOSPC,
// readdir order ...) is a vsim::choose() decision, so it is part of the run's tape.
#pragma once

#include <stdint.h>
#include <stdio.h>
#include <sys/types.h>

#include <map>
#include <memory>
#include <string>
#include <vector>

namespace vfs {

constexpr int FD_BASE = 1 << 20;

// Per-run fault plan. A denominator of 0 disables the fault; d > 0 fires with probability 1/d per
// eligible call.
struct Faults {
  uint32_t short_read = 0; // read/pread/cookie-read returns 1..k-1 of k available
  uint32_t short_write = 0; // write/pwrite/cookie-write stores 1..k-1 of k
  uint32_t eintr = 0; // blocking read/write/poll returns -1/EINTR
  uint32_t eio = 0; // read returns -1/EIO
  uint32_t enospc = 0; // write returns -1/ENOSPC (possibly after a short write)
  uint32_t eagain = 0; // non-blocking descriptors: spurious EAGAIN
  uint32_t truncate_race = 0; // another process truncates the regular file between fstat() and read()
  uint32_t eintr_close = 0; // close() returns -1/EINTR AFTER releasing the descriptor (Linux semantics: it must not be retried)
};

enum class Kind { REG, DIR, STREAM, URANDOM, SYMLINK };

struct Inode {
  Kind kind = Kind::REG;
  std::string data; // REG / STREAM contents
  // STREAM delivery: 0 = whatever is asked, 1 = never more than `chunk` bytes per read,
  // 2 = a drawn size per read
  int chunk_mode = 0;
  size_t chunk = 0;
  bool writer_open = false; // STREAM: if true, an empty stream blocks (EAGAIN) instead of EOF
  std::map<std::string, std::shared_ptr<Inode>> entries; // DIR (sorted => deterministic)
  bool deny_remove = false; // unlink/rmdir of this node fails with EACCES
  std::string link_target; // SYMLINK: absolute simulated path (may dangle)
  // REG: a file whose size cannot be asked for, only read (like /proc files: st_size and SEEK_END say 0)
  bool sizeless = false;
  // REG: another process appends these bytes right after the first size query (fstat or SEEK_END) on it
  std::string appended_after_size_query;
  int urandom_mode = 0; // URANDOM byte generator
  uint64_t urandom_seed = 0;
  uint64_t urandom_pos = 0;
  size_t capacity = SIZE_MAX; // REG: writes beyond this size hit ENOSPC (full disk)
  // Scripted behaviour of successive read calls on descriptors of this inode (replayable without
  // the tape): 0 = normal, k>0 = deliver at most k bytes, -1 = EIO from this call on (a failed medium stays
  // failed; a transient error followed by successful reads is not modelled). Empty = not scripted.
  std::vector<int> read_script;
  // A signal without SA_RESTART interrupts the reader once: the first read that starts at or beyond
  // `intr_at_offset` delivers at most `intr_piece` bytes (if non-zero), the next one fails with EINTR, and from
  // then on reads are normal again. SIZE_MAX = never.
  size_t intr_at_offset = SIZE_MAX;
  size_t intr_piece = 0;
  int intr_state = 0;
};

struct OpenFile {
  std::shared_ptr<Inode> ino;
  size_t pos = 0;
  int flags = 0;
  bool is_open = true;
  int close_calls = 0;
  uint64_t bytes_delivered = 0; // total bytes handed out by read()
  uint64_t bytes_accepted = 0; // total bytes taken by write()
  short ready = 0; // poll readiness bits for Poll scenarios
  bool explicit_ready = false; // true: poll() reports `ready` as set by the harness; false: what the file's state implies
  size_t script_pos = 0;
  std::string path;
};

// What the wrappers did since the last calls_reset(); oracles read this to know whether a short
// transfer or an error was actually injected during the library call under test.
struct Calls {
  uint64_t reads = 0, writes = 0, opens = 0, closes = 0, polls = 0;
  uint64_t bytes_read = 0, bytes_written = 0;
  uint64_t short_reads = 0; // reads that returned fewer bytes than both asked and available
  uint64_t short_writes = 0;
  uint64_t short_reads_page = 0;
  uint64_t truncations = 0; // concurrent truncations that fired // urandom reads longer than a page cut at the page boundary (signal pending)
  uint64_t errors = 0; // calls that returned -1 by injection
  uint64_t natural_errors = 0; // calls that returned -1 for a modelled reason (ENOENT, EBADF ...)
  int last_errno = 0;
  int last_poll_timeout = -12345; // timeout argument of the most recent poll() on virtual descriptors
  uint64_t ebadf = 0; // operations on a closed / unknown virtual descriptor
  uint64_t double_close = 0;
};

struct World {
  Faults faults;
  std::shared_ptr<Inode> root; // "/sim"
  std::map<int, OpenFile> fds; // every virtual descriptor ever handed out in this run
  int next_fd = FD_BASE;
  Calls calls;
  uint64_t total_wrapper_calls = 0;
  uint64_t call_budget = 2000000; // a run exceeding this is a hang of the code under test
  bool budget_exceeded = false;
  // hook invoked between directory-related calls (used for the concurrent deleter task)
  void (*between_dir_calls)() = nullptr;
  // hook invoked on entry to every read (false) / write (true) of a simulated FILE* stream: the caller is
  // "inside the system call" there, which is where another thread of the same process gets to run
  void (*io_hook)(bool is_write) = nullptr;
  // hook invoked when a read() on a simulated descriptor has delivered data, before it returns
  void (*after_read_hook)() = nullptr;
  bool shuffle_readdir = false;
  bool dirent_types_known = false; // readdir() fills d_type with the true type instead of DT_UNKNOWN
  bool own_empty_polls = false;
  // The calling process "has no descriptor 0": the next open() of a simulated path is handed the number 0
  // (once per run). While set, descriptor 0 belongs to the simulated kernel; the harness never uses stdin.
  size_t stdio_buffering = 0; // see set_stdio_buffering
  bool hand_out_fd0 = false;
  bool fd0_is_virtual = false; // poll() with no descriptors is answered here (returns 0 at once) instead of really sleeping
};

World& world();
void reset(); // start of every run
void calls_reset();

// ---- building the world (harness side; never faulted)
std::shared_ptr<Inode> mkfile(const std::string& path, const std::string& data);
std::shared_ptr<Inode> mkdir_p(const std::string& path);
std::shared_ptr<Inode> lookup(const std::string& path); // nullptr if absent; like lstat(): symbolic links in the directory part are followed, a link as last component is returned itself
std::shared_ptr<Inode> lookup_follow(const std::string& path); // like stat(): follows a final link too (nullptr if it dangles)
std::shared_ptr<Inode> mksymlink(const std::string& path, const std::string& target);
bool exists(const std::string& path);
// snapshot of all paths below `path` (relative names, sorted) with file contents hashed
std::vector<std::string> snapshot(const std::string& path);

// A readable pipe-like descriptor over `data`.
int open_stream_fd(const std::string& data, int chunk_mode, size_t chunk, bool nonblocking = false);
// An open descriptor on an inode (harness side).
int open_inode_fd(std::shared_ptr<Inode> ino, int flags);
OpenFile* fd_entry(int fd);
// Descriptors still open / closed more than once etc.
size_t open_fd_count();

// A REAL kernel pipe whose writer is the simulator: before every read() the library issues on the
// returned descriptor, the next chunk (size drawn from the tape) is written into the pipe, or the write
// end is closed when everything has been fed. Exercises the real pipe semantics of read().
int open_real_pipe_stream(const std::string& data, size_t max_chunk);
void close_real_pipe_streams(); // end of run: closes whatever is still open
size_t real_pipe_bytes_fed(int fd);

// FILE* over an inode via fopencookie. mode: "r", "w", "r+". The stream's cookie descriptor is
// tracked in world().fds like any other (its number is returned through *fd_out if non-null).
FILE* fopen_inode(std::shared_ptr<Inode> ino, const char* mode, int* fd_out = nullptr, bool seekable = true);
// Buffering mode given to every stream opened by fopen_inode from now on in this run:
// 0 = stdio default, 1 = unbuffered (_IONBF), n > 1 = fully buffered with an n-byte buffer.
void set_stdio_buffering(size_t mode);

// ---- urandom device
void set_urandom(int mode, uint64_t seed);
// Process-wide: the next open("/dev/urandom") is handed descriptor 0 (a process started without stdin).
void urandom_open_returns_fd0(bool enable);
uint8_t urandom_byte(int mode, uint64_t seed, uint64_t pos);
uint64_t urandom_consumed();
// Scripted device behaviour for successive reads (used by sim-rand so that two passes see the same
// fault sequence): 0 = deliver everything asked, k>0 = deliver at most k bytes, -1 = EIO, -2 = EINTR,
// -3 = a signal is pending: at most one page (4096 bytes) is delivered, as Linux does.
// When the script is exhausted every read is delivered in full.
void set_urandom_script(const std::vector<int>& script);
// The next `times` opens of /dev/urandom fail with EMFILE (the process has momentarily no free descriptor).
void urandom_open_fails(int times);
// called on entry to every read of the simulated device (the reader is "inside the system call" there)
void urandom_set_read_hook(void (*h)());
void urandom_get_state(uint64_t& pos, size_t& script_pos);
void urandom_set_state(uint64_t pos, size_t script_pos);
void urandom_script_suspend(bool on); // a healthy device for a while; the script (and its position) is kept
// getrandom()/getentropy() are answered from the simulated device too (sim-rand switches this on).
void simulate_getrandom(bool on);
size_t urandom_script_used();

} // namespace vfs
