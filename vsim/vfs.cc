// vfs implementation + link-time wrappers. See vfs.hh.
#include "vfs.hh"

#include <dirent.h>
#include <errno.h>
#include <fcntl.h>
#include <poll.h>
#include <stdarg.h>
#include <string.h>
#include <sys/stat.h>
#include <sys/sysmacros.h>
#include <sys/uio.h>
#include <unistd.h>

#include <algorithm>
#include <set>

#include "vsim.hh"

using vsim::choose;

namespace vfs {

// (constructed before ordinary static objects: an engine may call the code under test from a static initialiser)
#define VFS_EARLY __attribute__((init_priority(101)))
static World g_world VFS_EARLY;
World& world() { return g_world; }

constexpr int URANDOM_FD = FD_BASE - 7;
static int g_urandom_mode = 0;
static uint64_t g_urandom_seed = 0;
static uint64_t g_urandom_pos = 0;
static std::vector<int> g_urandom_script VFS_EARLY;
static size_t g_urandom_script_pos = 0;
static bool g_urandom_scripted = false;
static bool g_urandom_fd0 = false; // /dev/urandom lives at descriptor 0 in this process
static bool g_urandom_fd0_next = false;
static void (*g_urandom_read_hook)() = nullptr;
static int g_urandom_open_failures = 0; // the next opens of /dev/urandom fail with EMFILE (descriptor table full)

struct FakeDir {
  std::shared_ptr<Inode> ino;
  std::vector<std::string> names;
  size_t pos = 0;
  struct dirent ent;
  int owned_fd = -1; // fdopendir(): the directory stream owns this descriptor and closes it in closedir()
  std::string path; // for dirfd(): descriptors relative to this directory
};
static std::set<FakeDir*> g_dirs VFS_EARLY;

void reset() {
  close_real_pipe_streams();
  for (auto* d : g_dirs) delete d;
  g_dirs.clear();
  g_world = World();
  g_world.root = std::make_shared<Inode>();
  g_world.root->kind = Kind::DIR;
  g_urandom_pos = 0;
  g_urandom_scripted = false;
  g_urandom_script.clear();
  g_urandom_script_pos = 0;
}

void calls_reset() { g_world.calls = Calls(); }

struct Feeder {
  int wfd = -1;
  std::string data;
  size_t fed = 0;
  size_t max_chunk = 1;
};
static std::map<int, Feeder> g_feeders VFS_EARLY; // read end (real descriptor) -> writer state

static bool tick() {
  World& w = g_world;
  if (++w.total_wrapper_calls > w.call_budget) {
    w.budget_exceeded = true;
    return false;
  }
  return true;
}

// ------------------------------------------------------------------ paths

static bool is_sim_path(const char* p) { return p && !strncmp(p, "/sim", 4) && (p[4] == 0 || p[4] == '/'); }

static std::vector<std::string> split_path(const std::string& path) {
  std::vector<std::string> parts;
  size_t i = 4; // skip "/sim"
  while (i < path.size()) {
    while (i < path.size() && path[i] == '/') i++;
    size_t j = i;
    while (j < path.size() && path[j] != '/') j++;
    if (j > i) parts.push_back(path.substr(i, j - i));
    i = j;
  }
  return parts;
}

// Path walk with symbolic links: links met in the directory part are always followed, a link as the last
// component only if follow_final (stat/open/opendir follow, lstat/unlink/rmdir do not).
static std::shared_ptr<Inode> walk(const std::string& path, bool follow_final, int depth) {
  if (!is_sim_path(path.c_str()) || depth > 8) return nullptr;
  auto parts = split_path(path);
  auto cur = g_world.root;
  for (size_t i = 0; i < parts.size(); i++) {
    if (cur->kind != Kind::DIR) return nullptr;
    auto it = cur->entries.find(parts[i]);
    if (it == cur->entries.end()) return nullptr;
    cur = it->second;
    bool last = i + 1 == parts.size();
    if (cur->kind == Kind::SYMLINK && (!last || follow_final)) {
      cur = walk(cur->link_target, true, depth + 1);
      if (!cur) return nullptr;
    }
  }
  return cur;
}

std::shared_ptr<Inode> lookup(const std::string& path) { return walk(path, false, 0); }
std::shared_ptr<Inode> lookup_follow(const std::string& path) { return walk(path, true, 0); }

static std::shared_ptr<Inode> lookup_parent(const std::string& path, std::string& leaf) {
  auto parts = split_path(path);
  if (parts.empty()) return nullptr;
  leaf = parts.back();
  size_t slash = path.find_last_not_of('/');
  slash = path.rfind('/', slash);
  std::string dir = path.substr(0, slash);
  auto cur = dir.size() <= 4 ? g_world.root : walk(dir, true, 0);
  return cur && cur->kind == Kind::DIR ? cur : nullptr;
}

std::shared_ptr<Inode> mksymlink(const std::string& path, const std::string& target) {
  auto n = mkfile(path, "");
  n->kind = Kind::SYMLINK;
  n->link_target = target;
  return n;
}

bool exists(const std::string& path) { return lookup(path) != nullptr; }

std::shared_ptr<Inode> mkdir_p(const std::string& path) {
  auto cur = g_world.root;
  for (auto& part : split_path(path)) {
    auto it = cur->entries.find(part);
    if (it == cur->entries.end()) {
      auto n = std::make_shared<Inode>();
      n->kind = Kind::DIR;
      cur->entries[part] = n;
      cur = n;
    } else {
      cur = it->second;
    }
  }
  return cur;
}

std::shared_ptr<Inode> mkfile(const std::string& path, const std::string& data) {
  std::string leaf;
  size_t slash = path.rfind('/');
  mkdir_p(path.substr(0, slash));
  auto parent = lookup_parent(path, leaf);
  if (!parent) vsim::harness_bug("mkfile: no parent for " + path);
  auto n = std::make_shared<Inode>();
  n->kind = Kind::REG;
  n->data = data;
  parent->entries[leaf] = n;
  return n;
}

static void snapshot_rec(const std::shared_ptr<Inode>& n, const std::string& prefix, std::vector<std::string>& out) {
  for (auto& kv : n->entries) {
    std::string name = prefix + "/" + kv.first;
    if (kv.second->kind == Kind::DIR) {
      out.push_back(name + "/");
      snapshot_rec(kv.second, name, out);
    } else {
      out.push_back(name + "#" + std::to_string(kv.second->data.size()) + ":" + std::to_string(std::hash<std::string>()(kv.second->data)));
    }
  }
}

std::vector<std::string> snapshot(const std::string& path) {
  std::vector<std::string> out;
  auto n = lookup(path);
  if (n && n->kind == Kind::DIR) snapshot_rec(n, "", out);
  return out;
}

// ------------------------------------------------------------------ descriptors

static int alloc_fd(std::shared_ptr<Inode> ino, int flags, const std::string& path) {
  World& w = g_world;
  int fd;
  if (w.hand_out_fd0 && !w.fd0_is_virtual) {
    fd = 0; // lowest free number of a process without stdin
    w.fd0_is_virtual = true;
    w.hand_out_fd0 = false;
  } else {
    fd = w.next_fd++;
  }
  OpenFile of;
  of.ino = ino;
  of.flags = flags;
  of.path = path;
  w.fds[fd] = of;
  return fd;
}

int open_inode_fd(std::shared_ptr<Inode> ino, int flags) { return alloc_fd(ino, flags, ""); }

int open_stream_fd(const std::string& data, int chunk_mode, size_t chunk, bool nonblocking) {
  auto n = std::make_shared<Inode>();
  n->kind = Kind::STREAM;
  n->data = data;
  n->chunk_mode = chunk_mode;
  n->chunk = chunk;
  return alloc_fd(n, O_RDONLY | (nonblocking ? O_NONBLOCK : 0), "");
}

OpenFile* fd_entry(int fd) {
  auto it = g_world.fds.find(fd);
  return it == g_world.fds.end() ? nullptr : &it->second;
}

size_t open_fd_count() {
  size_t n = 0;
  for (auto& kv : g_world.fds) n += kv.second.is_open;
  return n;
}

static bool is_virtual(int fd) { return fd >= FD_BASE || (fd == 0 && g_world.fd0_is_virtual); }

static OpenFile* live_fd(int fd) {
  OpenFile* of = fd_entry(fd);
  if (!of || !of->is_open) {
    g_world.calls.ebadf++;
    g_world.calls.natural_errors++;
    errno = EBADF;
    vsim::ev("ebadf", fd - FD_BASE);
    return nullptr;
  }
  return of;
}

// ------------------------------------------------------------------ real pipe with a simulated writer

extern "C" int __real_close(int);
extern "C" ssize_t __real_write(int, const void*, size_t);
extern "C" int __real_fcntl(int, int, ...);

int open_real_pipe_stream(const std::string& data, size_t max_chunk) {
  int fds[2];
  if (::pipe(fds)) vsim::harness_bug("pipe failed");
  int fl = __real_fcntl(fds[1], F_GETFL, 0);
  __real_fcntl(fds[1], F_SETFL, fl | O_NONBLOCK);
  Feeder f;
  f.wfd = fds[1];
  f.data = data;
  f.max_chunk = max_chunk ? max_chunk : 1;
  g_feeders[fds[0]] = f;
  return fds[0];
}

size_t real_pipe_bytes_fed(int fd) {
  auto it = g_feeders.find(fd);
  return it == g_feeders.end() ? 0 : it->second.fed;
}

void close_real_pipe_streams() {
  for (auto& kv : g_feeders) {
    if (kv.second.wfd >= 0) __real_close(kv.second.wfd);
    __real_close(kv.first);
  }
  g_feeders.clear();
}

// the writer's turn: called before each read() of the library on a fed pipe
static void feed(Feeder& f) {
  if (f.wfd < 0) return;
  if (f.fed == f.data.size()) {
    __real_close(f.wfd); // the writer is done: the next read sees EOF
    f.wfd = -1;
    vsim::ev("pipe.writer_closed", f.fed);
    return;
  }
  size_t left = f.data.size() - f.fed;
  size_t k = 1 + vsim::choose_range(0, std::min(left, f.max_chunk) - 1, "pipe.feed");
  if (k > 60000) k = 60000; // stay below the pipe capacity so the writer never blocks
  ssize_t w = __real_write(f.wfd, f.data.data() + f.fed, k); // non-blocking: a full pipe just means "no new data now"
  if (w < 0 && (errno == EAGAIN || errno == EWOULDBLOCK)) {
    vsim::ev("pipe.full", f.fed);
    return; // the reader is behind; there is plenty in the pipe for its next read
  }
  if (w <= 0) vsim::harness_bug("feeding a real pipe failed");
  k = w;
  f.fed += k;
  g_world.calls.short_reads++; // delivery in pieces: what the caller sees is a short read
  VS_FAULT("staggered_pipe_write");
  vsim::ev("pipe.feed", k, f.fed);
}

// ------------------------------------------------------------------ urandom

uint8_t urandom_byte(int mode, uint64_t seed, uint64_t pos) {
  if (mode >= 100) return (uint8_t)~urandom_byte(mode - 100, seed, pos); // complement stream
  switch (mode) {
    case 0: return 0x00;
    case 1: return 0xFF;
    case 2: return (pos & 1) ? 0x00 : 0x80;
    case 3: return (pos & 1) ? 0xFF : 0x00;
    case 4: return (uint8_t)pos;
    default: return (uint8_t)(vsim::mix64(seed ^ (pos * 0x9E3779B97F4A7C15ULL)) >> 24);
  }
}

void set_urandom(int mode, uint64_t seed) {
  g_urandom_mode = mode;
  g_urandom_seed = seed;
}

uint64_t urandom_consumed() { return g_urandom_pos; }
void set_stdio_buffering(size_t mode) { g_world.stdio_buffering = mode; }
void urandom_open_returns_fd0(bool enable) { g_urandom_fd0_next = enable; }
void urandom_open_fails(int times) { g_urandom_open_failures = times; }
void urandom_set_read_hook(void (*h)()) { g_urandom_read_hook = h; }

void set_urandom_script(const std::vector<int>& script) {
  g_urandom_script = script;
  g_urandom_script_pos = 0;
  g_urandom_scripted = true;
  g_urandom_pos = 0;
}
size_t urandom_script_used() { return g_urandom_script_pos; }
// state of the simulated device that a harness may save and restore (see sim_rand: resynchronising two passes)
void urandom_get_state(uint64_t& pos, size_t& script_pos) {
  pos = g_urandom_pos;
  script_pos = g_urandom_script_pos;
}
void urandom_set_state(uint64_t pos, size_t script_pos) {
  g_urandom_pos = pos;
  g_urandom_script_pos = script_pos;
}
static std::vector<int> g_urandom_script_saved VFS_EARLY;
static bool g_urandom_script_suspended = false;
void urandom_script_suspend(bool on) {
  if (on && !g_urandom_script_suspended) {
    g_urandom_script_saved = g_urandom_script;
    g_urandom_script.clear();
    g_urandom_script_suspended = true;
  } else if (!on && g_urandom_script_suspended) {
    g_urandom_script = g_urandom_script_saved;
    g_urandom_script_suspended = false;
  }
}

// ------------------------------------------------------------------ core read/write on an OpenFile

// `is_cookie`: called from a stdio cookie callback (never EAGAIN; EINTR looks like an error to stdio)
static ssize_t do_read(OpenFile& of, void* buf, size_t n, off_t* explicit_off, bool is_cookie) {
  World& w = g_world;
  Calls& c = w.calls;
  c.reads++;
  (void)is_cookie;
  if (!tick()) {
    errno = EIO;
    return -1;
  }
  Inode& ino = *of.ino;
  if (ino.kind == Kind::DIR) {
    c.natural_errors++;
    errno = EISDIR;
    return -1;
  }
  const Faults& f = w.faults;
  bool nonblock = (of.flags & O_NONBLOCK) != 0;
  if (f.truncate_race && ino.kind == Kind::REG && !explicit_off && of.pos < ino.data.size() && vsim::chance(1, f.truncate_race, "read.truncate_race")) {
    // a concurrent writer has truncated the file since the caller looked at its size
    size_t keep = of.pos + vsim::choose_range(0, ino.data.size() - of.pos - 1, "read.truncate_race.keep");
    ino.data.resize(keep);
    c.truncations++;
    VS_FAULT("concurrent_truncate");
    vsim::ev("truncated", keep);
  }
  size_t pos = explicit_off ? (size_t)*explicit_off : of.pos;
  size_t avail = pos < ino.data.size() ? ino.data.size() - pos : 0;

  if (ino.intr_state < 2 && pos >= ino.intr_at_offset && n > 0 && !explicit_off) {
    if (ino.intr_state == 0) {
      ino.intr_state = 1;
      if (ino.intr_piece && avail) {
        size_t k = std::min({n, avail, ino.intr_piece});
        memcpy(buf, ino.data.data() + pos, k);
        of.pos += k;
        of.bytes_delivered += k;
        c.bytes_read += k;
        if (k < std::min(n, avail)) c.short_reads++;
        vsim::ev("read.before_signal", k, n);
        return k;
      }
    }
    ino.intr_state = 2;
    VS_FAULT("EINTR@read(transient)");
    c.errors++;
    c.last_errno = EINTR;
    vsim::ev("read.EINTR.once", n);
    errno = EINTR;
    return -1;
  }

  if (!ino.read_script.empty() && n > 0) {
    int act = of.script_pos < ino.read_script.size() ? ino.read_script[of.script_pos] : 0;
    if (act >= 0) of.script_pos++; // an error is persistent (failed medium): every later read fails too
    if (act < 0) {
      VS_FAULT("EIO@read");
      c.errors++;
      c.last_errno = EIO;
      vsim::ev("read.EIO", 1, n);
      errno = EIO;
      return -1;
    }
    size_t k = std::min(n, avail);
    if (act > 0 && (size_t)act < k) {
      k = act;
      c.short_reads++;
      VS_FAULT("short_read");
    }
    if (k) memcpy(buf, ino.data.data() + pos, k);
    if (!explicit_off) of.pos = pos + k;
    of.bytes_delivered += k;
    c.bytes_read += k;
    vsim::ev("read", n, k, avail);
    return k;
  }
  // injected errors first
  if (f.eio && n > 0 && vsim::chance(1, f.eio, "read.eio")) {
    VS_FAULT("EIO@read");
    c.errors++;
    c.last_errno = EIO;
    vsim::ev("read.EIO", 0, n);
    errno = EIO;
    return -1;
  }
  if (f.eintr && !nonblock && n > 0 && vsim::chance(1, f.eintr, "read.eintr")) {
    VS_FAULT("EINTR@read");
    c.errors++;
    c.last_errno = EINTR;
    vsim::ev("read.EINTR", 0, n);
    errno = EINTR;
    return -1;
  }
  if (nonblock && f.eagain && n > 0 && vsim::chance(1, f.eagain, "read.eagain")) {
    VS_FAULT("EAGAIN@read");
    c.errors++;
    c.last_errno = EAGAIN;
    vsim::ev("read.EAGAIN", 0, n);
    errno = EAGAIN;
    return -1;
  }
  if (avail == 0 && ino.kind == Kind::STREAM && ino.writer_open) {
    c.natural_errors++;
    errno = EAGAIN;
    return -1;
  }

  size_t k = std::min(n, avail);
  size_t natural = k;
  if (ino.kind == Kind::STREAM && k > 0) {
    if (ino.chunk_mode == 1 && ino.chunk > 0) {
      k = std::min(k, ino.chunk);
    } else if (ino.chunk_mode == 2 && k > 1) {
      k = 1 + vsim::choose_range(0, k - 1, "read.chunk");
      k = std::min(k, natural);
    }
  }
  if (f.short_read && k > 1 && vsim::chance(1, f.short_read, "read.short")) {
    k = 1 + vsim::choose_range(0, k - 2, "read.short.len");
  }
  if (k < natural) {
    c.short_reads++;
    VS_FAULT("short_read");
  }
  if (k) memcpy(buf, ino.data.data() + pos, k);
  if (!explicit_off) of.pos = pos + k;
  of.bytes_delivered += k;
  c.bytes_read += k;
  vsim::ev("read", n, k, avail);
  return k;
}

static ssize_t do_write(OpenFile& of, const void* buf, size_t n, off_t* explicit_off, bool is_cookie) {
  World& w = g_world;
  Calls& c = w.calls;
  c.writes++;
  (void)is_cookie;
  if (!tick()) {
    errno = EIO;
    return -1;
  }
  Inode& ino = *of.ino;
  if (ino.kind == Kind::DIR) {
    c.natural_errors++;
    errno = EISDIR;
    return -1;
  }
  if ((of.flags & O_ACCMODE) == O_RDONLY) {
    c.natural_errors++;
    errno = EBADF;
    return -1;
  }
  const Faults& f = w.faults;
  if (f.enospc && n > 0 && vsim::chance(1, f.enospc, "write.enospc")) {
    VS_FAULT("ENOSPC@write");
    c.errors++;
    c.last_errno = ENOSPC;
    vsim::ev("write.ENOSPC", 0, n);
    errno = ENOSPC;
    return -1;
  }
  if (f.eintr && n > 0 && vsim::chance(1, f.eintr, "write.eintr")) {
    VS_FAULT("EINTR@write");
    c.errors++;
    c.last_errno = EINTR;
    vsim::ev("write.EINTR", 0, n);
    errno = EINTR;
    return -1;
  }
  size_t pos = explicit_off ? (size_t)*explicit_off : ((of.flags & O_APPEND) ? ino.data.size() : of.pos);
  size_t k = n;
  // full disk: capacity limits how far the file can grow
  if (pos + k > ino.capacity) {
    size_t room = pos < ino.capacity ? ino.capacity - pos : 0;
    if (room == 0) {
      VS_FAULT("ENOSPC@capacity");
      c.errors++;
      c.last_errno = ENOSPC;
      vsim::ev("write.ENOSPC.cap", 0, n);
      errno = ENOSPC;
      return -1;
    }
    k = room;
  }
  if (f.short_write && k > 1 && vsim::chance(1, f.short_write, "write.short")) {
    k = 1 + vsim::choose_range(0, k - 2, "write.short.len");
  }
  if (k < n) {
    c.short_writes++;
    VS_FAULT("short_write");
  }
  if (k && pos + k > ino.data.size()) ino.data.resize(pos + k, '\0');
  if (k) memcpy(ino.data.data() + pos, buf, k);
  if (!explicit_off) of.pos = pos + k;
  of.bytes_accepted += k;
  c.bytes_written += k;
  vsim::ev("write", n, k, pos);
  return k;
}

static ssize_t urandom_read(void* buf, size_t n) {
  if (g_urandom_read_hook) g_urandom_read_hook();
  World& w = g_world;
  Calls& c = w.calls;
  c.reads++;
  if (!tick()) {
    errno = EIO;
    return -1;
  }
  if (g_urandom_scripted) {
    int act = g_urandom_script_pos < g_urandom_script.size() ? g_urandom_script[g_urandom_script_pos] : 0;
    g_urandom_script_pos++;
    if (act == -3) {
      // Linux /dev/urandom with a signal pending: the read is cut at the next page boundary. Reads of at
      // most one page are therefore never short; this is normal behaviour of the device, not a fault.
      size_t k = n;
      if (k > 4096) {
        k = 4096;
        c.short_reads_page++;
        VS_FAULT("urandom_read_cut_at_page_by_signal");
      }
      uint8_t* p = (uint8_t*)buf;
      for (size_t i = 0; i < k; i++) p[i] = urandom_byte(g_urandom_mode, g_urandom_seed, g_urandom_pos + i);
      g_urandom_pos += k;
      c.bytes_read += k;
      vsim::ev("urandom.read.sig", n, k);
      return k;
    }
    if (act < 0 && n > 0) {
      if (act == -1) VS_FAULT("EIO@urandom");
      else VS_FAULT("EINTR@urandom");
      c.errors++;
      c.last_errno = act == -1 ? EIO : EINTR;
      vsim::ev(act == -1 ? "urandom.EIO" : "urandom.EINTR", 0, n);
      errno = c.last_errno;
      return -1;
    }
    size_t k = n;
    if (act > 0 && (size_t)act < n) {
      k = act;
      c.short_reads++;
      VS_FAULT("short_read@urandom");
    }
    uint8_t* p = (uint8_t*)buf;
    for (size_t i = 0; i < k; i++) p[i] = urandom_byte(g_urandom_mode, g_urandom_seed, g_urandom_pos + i);
    g_urandom_pos += k;
    c.bytes_read += k;
    vsim::ev("urandom.read", n, k);
    return k;
  }
  const Faults& f = w.faults;
  if (f.eio && n > 0 && vsim::chance(1, f.eio, "urandom.eio")) {
    VS_FAULT("EIO@urandom");
    c.errors++;
    vsim::ev("urandom.EIO", 0, n);
    errno = EIO;
    return -1;
  }
  if (f.eintr && n > 0 && vsim::chance(1, f.eintr, "urandom.eintr")) {
    VS_FAULT("EINTR@urandom");
    c.errors++;
    vsim::ev("urandom.EINTR", 0, n);
    errno = EINTR;
    return -1;
  }
  size_t k = n;
  if (f.short_read && k > 1 && vsim::chance(1, f.short_read, "urandom.short")) {
    k = 1 + vsim::choose_range(0, k - 2, "urandom.short.len");
    c.short_reads++;
    VS_FAULT("short_read@urandom");
  }
  uint8_t* p = (uint8_t*)buf;
  for (size_t i = 0; i < k; i++) p[i] = urandom_byte(g_urandom_mode, g_urandom_seed, g_urandom_pos + i);
  g_urandom_pos += k;
  c.bytes_read += k;
  vsim::ev("urandom.read", n, k);
  return k;
}

// ------------------------------------------------------------------ stdio cookies

struct Cookie {
  int fd;
  bool seekable;
};

static ssize_t cookie_read(void* cookie, char* buf, size_t size) {
  if (g_world.io_hook) g_world.io_hook(false);
  vsim::Quiet quiet;
  Cookie* ck = (Cookie*)cookie;
  OpenFile* of = fd_entry(ck->fd);
  if (!of || !of->is_open) {
    errno = EBADF;
    return -1;
  }
  return do_read(*of, buf, size, nullptr, true);
}

static ssize_t cookie_write(void* cookie, const char* buf, size_t size) {
  if (g_world.io_hook) g_world.io_hook(true);
  vsim::Quiet quiet;
  Cookie* ck = (Cookie*)cookie;
  OpenFile* of = fd_entry(ck->fd);
  if (!of || !of->is_open) {
    errno = EBADF;
    return 0;
  }
  ssize_t r = do_write(*of, buf, size, nullptr, true);
  // fopencookie convention: the write function returns 0 on error
  return r < 0 ? 0 : r;
}

static int cookie_seek(void* cookie, off64_t* offset, int whence) {
  vsim::Quiet quiet;
  Cookie* ck = (Cookie*)cookie;
  OpenFile* of = fd_entry(ck->fd);
  if (!of || !of->is_open || !ck->seekable || of->ino->kind != Kind::REG) {
    errno = ESPIPE;
    return -1;
  }
  int64_t base = 0;
  if (whence == SEEK_SET) base = 0;
  else if (whence == SEEK_CUR) base = of->pos;
  else if (whence == SEEK_END) {
    base = of->ino->sizeless ? 0 : of->ino->data.size();
    if (!of->ino->appended_after_size_query.empty()) {
      of->ino->data += of->ino->appended_after_size_query;
      of->ino->appended_after_size_query.clear();
      VS_FAULT("file_grows_after_size_query");
    }
  } else {
    errno = EINVAL;
    return -1;
  }
  int64_t np = base + *offset;
  if (np < 0) {
    errno = EINVAL;
    return -1;
  }
  of->pos = np;
  *offset = np;
  vsim::ev("seek", whence, np);
  return 0;
}

static int cookie_close(void* cookie) {
  vsim::Quiet quiet;
  Cookie* ck = (Cookie*)cookie;
  OpenFile* of = fd_entry(ck->fd);
  if (of) {
    if (!of->is_open) g_world.calls.double_close++;
    of->is_open = false;
    of->close_calls++;
  }
  delete ck;
  return 0;
}

FILE* fopen_inode(std::shared_ptr<Inode> ino, const char* mode, int* fd_out, bool seekable) {
  vsim::Quiet quiet;
  int flags = O_RDONLY;
  if (strchr(mode, '+')) flags = O_RDWR;
  else if (mode[0] == 'w' || mode[0] == 'a') flags = O_WRONLY;
  if (mode[0] == 'w') ino->data.clear();
  int fd = alloc_fd(ino, flags | (mode[0] == 'a' ? O_APPEND : 0), "");
  if (fd_out) *fd_out = fd;
  Cookie* ck = new Cookie{fd, seekable};
  cookie_io_functions_t io = {cookie_read, cookie_write, cookie_seek, cookie_close};
  FILE* f = fopencookie(ck, mode, io);
  if (!f) vsim::harness_bug("fopencookie failed");
  if (g_world.stdio_buffering == 1) setvbuf(f, nullptr, _IONBF, 0);
  else if (g_world.stdio_buffering > 1) setvbuf(f, nullptr, _IOFBF, g_world.stdio_buffering);
  return f;
}

} // namespace vfs

// ------------------------------------------------------------------ link-time wrappers

using namespace vfs;

extern "C" {

ssize_t __real_read(int, void*, size_t);
ssize_t __real_write(int, const void*, size_t);
ssize_t __real_pread(int, void*, size_t, off_t);
ssize_t __real_pwrite(int, const void*, size_t, off_t);
int __real_open(const char*, int, ...);
int __real_close(int);
int __real_fstat(int, struct stat*);
int __real_stat(const char*, struct stat*);
int __real_lstat(const char*, struct stat*);
int __real_fcntl(int, int, ...);
int __real_poll(struct pollfd*, nfds_t, int);
DIR* __real_opendir(const char*);
struct dirent* __real_readdir(DIR*);
int __real_closedir(DIR*);
int __real_unlink(const char*);
int __real_rmdir(const char*);

ssize_t __wrap_read(int fd, void* buf, size_t n) {
  if (fd == URANDOM_FD || (fd == 0 && g_urandom_fd0)) return urandom_read(buf, n);
  if (!is_virtual(fd)) {
    auto it = g_feeders.find(fd);
    if (it != g_feeders.end()) {
      g_world.calls.reads++;
      if (!tick()) {
        errno = EIO;
        return -1;
      }
      feed(it->second);
      ssize_t r = __real_read(fd, buf, n);
      vsim::ev("pipe.read", n, (uint64_t)(int64_t)r);
      if (r > 0) g_world.calls.bytes_read += r;
      return r;
    }
    return __real_read(fd, buf, n);
  }
  OpenFile* of = live_fd(fd);
  if (!of) return -1;
  ssize_t r = do_read(*of, buf, n, nullptr, false);
  if (r > 0 && g_world.after_read_hook) {
    // the bytes are in the caller's buffer and the caller has not looked at them yet: another thread of the
    // program may run here
    int e = errno;
    g_world.after_read_hook();
    errno = e;
  }
  return r;
}

ssize_t __wrap_pread(int fd, void* buf, size_t n, off_t off) {
  if (fd == URANDOM_FD || (fd == 0 && g_urandom_fd0)) return urandom_read(buf, n); // a character device ignores the offset
  if (!is_virtual(fd)) return __real_pread(fd, buf, n, off);
  OpenFile* of = live_fd(fd);
  if (!of) return -1;
  if (of->ino->kind != Kind::REG) {
    errno = ESPIPE;
    g_world.calls.natural_errors++;
    return -1;
  }
  return do_read(*of, buf, n, &off, false);
}

ssize_t __wrap_write(int fd, const void* buf, size_t n) {
  if (!is_virtual(fd)) return __real_write(fd, buf, n);
  OpenFile* of = live_fd(fd);
  if (!of) return -1;
  return do_write(*of, buf, n, nullptr, false);
}

ssize_t __wrap_pwrite(int fd, const void* buf, size_t n, off_t off) {
  if (!is_virtual(fd)) return __real_pwrite(fd, buf, n, off);
  OpenFile* of = live_fd(fd);
  if (!of) return -1;
  if (of->ino->kind != Kind::REG) {
    errno = ESPIPE;
    g_world.calls.natural_errors++;
    return -1;
  }
  return do_write(*of, buf, n, &off, false);
}

int __wrap_open(const char* path, int flags, ...) {
  mode_t mode = 0;
  if (flags & O_CREAT) {
    va_list va;
    va_start(va, flags);
    mode = va_arg(va, int);
    va_end(va);
  }
  if (path && !strcmp(path, "/dev/urandom")) {
    // opened once per process by a function-local static of the code under test: not an event of a run
    if (g_urandom_open_failures > 0) {
      g_urandom_open_failures--;
      errno = EMFILE;
      return -1;
    }
    if (g_urandom_fd0_next) {
      g_urandom_fd0_next = false;
      g_urandom_fd0 = true;
      return 0;
    }
    return URANDOM_FD;
  }
  if (!is_sim_path(path)) return __real_open(path, flags, mode);
  World& w = g_world;
  w.calls.opens++;
  if (!tick()) {
    errno = EIO;
    return -1;
  }
  std::string p(path);
  auto n = lookup_follow(p);
  if (!n) {
    if (!(flags & O_CREAT)) {
      w.calls.natural_errors++;
      errno = ENOENT;
      vsim::ev("open.ENOENT");
      return -1;
    }
    std::string leaf;
    auto parent = lookup_parent(p, leaf);
    if (!parent) {
      w.calls.natural_errors++;
      errno = ENOENT;
      return -1;
    }
    n = std::make_shared<Inode>();
    n->kind = Kind::REG;
    parent->entries[leaf] = n;
  } else if ((flags & O_CREAT) && (flags & O_EXCL)) {
    w.calls.natural_errors++;
    errno = EEXIST;
    return -1;
  }
  if (n->kind == Kind::DIR && (flags & O_ACCMODE) != O_RDONLY) {
    w.calls.natural_errors++;
    errno = EISDIR;
    return -1;
  }
  if (n->kind != Kind::DIR && (flags & O_DIRECTORY)) {
    w.calls.natural_errors++;
    errno = ENOTDIR;
    return -1;
  }
  if ((flags & O_TRUNC) && n->kind == Kind::REG && (flags & O_ACCMODE) != O_RDONLY) n->data.clear();
  int fd = alloc_fd(n, flags, p);
  vsim::ev("open", fd ? fd - FD_BASE : 999999, flags);
  return fd;
}

FILE* __real_fopen(const char*, const char*);

// fdopen() of a simulated descriptor: a stdio stream over the same open file (closing the stream closes the
// descriptor, as with the real thing)
FILE* __real_fdopen(int, const char*);
FILE* __wrap_fdopen(int fd, const char* mode) {
  if (!is_virtual(fd)) return __real_fdopen(fd, mode);
  vsim::Quiet quiet;
  OpenFile* of = live_fd(fd);
  if (!of) return nullptr;
  Cookie* ck = new Cookie{fd, of->ino->kind == Kind::REG};
  cookie_io_functions_t io = {cookie_read, cookie_write, cookie_seek, cookie_close};
  FILE* f = fopencookie(ck, mode, io);
  if (!f) vsim::harness_bug("fopencookie failed");
  if (g_world.stdio_buffering == 1) setvbuf(f, nullptr, _IONBF, 0);
  else if (g_world.stdio_buffering > 1) setvbuf(f, nullptr, _IOFBF, g_world.stdio_buffering);
  vsim::ev("fdopen");
  return f;
}

// fopen() of a path under /sim/ yields a stdio stream over the simulated file (same fault plan as
// descriptors); this is how Image(filename) / Image::save(filename) reach the simulated disk.
FILE* __wrap_fopen(const char* path, const char* mode) {
  if (!is_sim_path(path)) return __real_fopen(path, mode);
  vsim::Quiet quiet;
  World& w = g_world;
  w.calls.opens++;
  std::string p(path);
  auto n = lookup_follow(p);
  bool writing = mode[0] == 'w' || mode[0] == 'a';
  if (!n) {
    if (!writing) {
      w.calls.natural_errors++;
      errno = ENOENT;
      vsim::ev("fopen.ENOENT");
      return nullptr;
    }
    std::string leaf;
    auto parent = lookup_parent(p, leaf);
    if (!parent) {
      w.calls.natural_errors++;
      errno = ENOENT;
      return nullptr;
    }
    n = std::make_shared<Inode>();
    n->kind = Kind::REG;
    parent->entries[leaf] = n;
  }
  if (n->kind == Kind::DIR) {
    errno = EISDIR;
    return nullptr;
  }
  char m[4] = {mode[0], 0, 0, 0};
  if (strchr(mode, '+')) m[1] = '+';
  vsim::ev("fopen", writing);
  return fopen_inode(n, m, nullptr, true);
}

int __wrap_close(int fd) {
  if (fd == URANDOM_FD) return 0;
  if (fd == 0 && g_urandom_fd0) {
    g_urandom_fd0 = false;
    return 0;
  }
  if (!is_virtual(fd)) return __real_close(fd);
  World& w = g_world;
  w.calls.closes++;
  OpenFile* of = fd_entry(fd);
  if (!of) {
    w.calls.ebadf++;
    errno = EBADF;
    vsim::ev("close.EBADF", fd - FD_BASE);
    return -1;
  }
  of->close_calls++;
  if (!of->is_open) {
    w.calls.double_close++;
    errno = EBADF;
    vsim::ev("close.double", fd - FD_BASE);
    return -1;
  }
  of->is_open = false;
  vsim::ev("close", fd - FD_BASE);
  if (w.faults.eintr_close && vsim::chance(1, w.faults.eintr_close, "close.eintr")) {
    // Linux releases the descriptor even when close() is interrupted; retrying would close whatever
    // has been opened under that number since
    VS_FAULT("EINTR@close");
    w.calls.errors++;
    errno = EINTR;
    return -1;
  }
  return 0;
}

static void fill_stat(const Inode& n, struct stat* st) {
  memset(st, 0, sizeof(*st));
  switch (n.kind) {
    case Kind::REG: st->st_mode = S_IFREG | 0644; break;
    case Kind::DIR: st->st_mode = S_IFDIR | 0755; break;
    case Kind::STREAM: st->st_mode = S_IFIFO | 0600; break;
    case Kind::URANDOM: st->st_mode = S_IFCHR | 0666; break;
    case Kind::SYMLINK: st->st_mode = S_IFLNK | 0777; break;
  }
  st->st_size = (n.kind == Kind::REG && !n.sizeless) ? n.data.size() : 0;
  st->st_nlink = 1;
  st->st_blksize = 4096;
}

int __wrap_fstat(int fd, struct stat* st) {
  if (fd == URANDOM_FD || (fd == 0 && g_urandom_fd0)) {
    memset(st, 0, sizeof(*st));
    st->st_mode = S_IFCHR | 0666;
    st->st_rdev = makedev(1, 9);
    st->st_nlink = 1;
    st->st_blksize = 4096;
    return 0;
  }
  if (!is_virtual(fd)) return __real_fstat(fd, st);
  OpenFile* of = live_fd(fd);
  if (!of) return -1;
  fill_stat(*of->ino, st);
  return 0;
}

static int stat_path(const char* path, struct stat* st, bool follow) {
  if (g_world.between_dir_calls) g_world.between_dir_calls();
  auto n = follow ? lookup_follow(path) : lookup(path);
  if (!n) {
    g_world.calls.natural_errors++;
    errno = ENOENT;
    return -1;
  }
  fill_stat(*n, st);
  return 0;
}

int __wrap_stat(const char* path, struct stat* st) {
  if (!is_sim_path(path)) return __real_stat(path, st);
  return stat_path(path, st, true);
}

int __wrap_lstat(const char* path, struct stat* st) {
  if (!is_sim_path(path)) return __real_lstat(path, st);
  return stat_path(path, st, false);
}

int __wrap_fcntl(int fd, int cmd, ...) {
  va_list va;
  va_start(va, cmd);
  long arg = va_arg(va, long);
  va_end(va);
  if (!is_virtual(fd)) return __real_fcntl(fd, cmd, arg);
  OpenFile* of = live_fd(fd);
  if (!of) return -1;
  if (cmd == F_GETFL) return of->flags;
  if (cmd == F_SETFL) {
    of->flags = (of->flags & ~(O_NONBLOCK | O_APPEND)) | ((int)arg & (O_NONBLOCK | O_APPEND));
    return 0;
  }
  errno = EINVAL;
  return -1;
}

int __wrap_poll(struct pollfd* pfds, nfds_t n, int timeout) {
  bool any_virtual = false;
  for (nfds_t i = 0; i < n; i++) any_virtual |= is_virtual(pfds[i].fd);
  if (!any_virtual && !(n == 0 && g_world.own_empty_polls)) return __real_poll(pfds, n, timeout);
  World& w = g_world;
  w.calls.polls++;
  w.calls.last_poll_timeout = timeout;
  if (!tick()) {
    errno = EIO;
    return -1;
  }
  if (w.faults.eintr && vsim::chance(1, w.faults.eintr, "poll.eintr")) {
    VS_FAULT("EINTR@poll");
    w.calls.errors++;
    vsim::ev("poll.EINTR");
    errno = EINTR;
    return -1;
  }
  int ready = 0;
  for (nfds_t i = 0; i < n; i++) {
    pfds[i].revents = 0;
    OpenFile* of = fd_entry(pfds[i].fd);
    if (!of || !of->is_open) {
      pfds[i].revents = POLLNVAL;
    } else {
      short ready = of->ready;
      if (!of->explicit_ready) {
        // what the state of the open file implies: a regular file is always ready; a pipe-like stream is readable
        // while it holds data and hung up once its writer is gone (both at once while data is left)
        const Inode& ino = *of->ino;
        if (ino.kind == Kind::REG) ready = POLLIN | POLLOUT;
        else if (ino.kind == Kind::STREAM) {
          ready = 0;
          if (of->pos < ino.data.size()) ready |= POLLIN;
          if (!ino.writer_open) ready |= POLLHUP;
          if ((of->flags & O_ACCMODE) != O_RDONLY) ready |= POLLOUT;
        }
      }
      pfds[i].revents = ready & (pfds[i].events | POLLHUP | POLLERR);
    }
    if (pfds[i].revents) ready++;
  }
  vsim::ev("poll", n, ready);
  return ready;
}

// ---- further entry points into the same simulated kernel, so that an implementation that reaches it through
// them (lseek, the *at family relative to AT_FDCWD or to a simulated directory descriptor, readv/writev,
// ftruncate, ppoll) is judged on what it does, not on which call it uses

// The kernel's other door to the same entropy: getrandom()/getentropy() are served from the simulated device
// (same stream, same script of short reads and errors) once an engine has switched that on; elsewhere untouched.
static bool g_getrandom_simulated = false;
} // extern "C"
namespace vfs {
void simulate_getrandom(bool on) { g_getrandom_simulated = on; }
} // namespace vfs
extern "C" {
ssize_t __real_getrandom(void*, size_t, unsigned);
ssize_t __wrap_getrandom(void* buf, size_t n, unsigned flags) {
  if (!g_getrandom_simulated) return __real_getrandom(buf, n, flags);
  // (EIO does not exist for getrandom: a scripted device error is delivered as EINTR, which does)
  ssize_t r = urandom_read(buf, n);
  if (r < 0 && errno == EIO) errno = EINTR;
  return r;
}
int __real_getentropy(void*, size_t);
int __wrap_getentropy(void* buf, size_t n) {
  if (!g_getrandom_simulated) return __real_getentropy(buf, n);
  if (n > 256) {
    errno = EIO;
    return -1;
  }
  size_t off = 0;
  while (off < n) { // getentropy never returns short
    ssize_t r = urandom_read((char*)buf + off, n - off);
    if (r < 0 && errno == EINTR) continue;
    if (r <= 0) {
      errno = EIO;
      return -1;
    }
    off += r;
  }
  return 0;
}

int __wrap_unlink(const char* path);
int __wrap_rmdir(const char* path);
static bool is_urandom_fd(int fd) { return fd == URANDOM_FD || (fd == 0 && g_urandom_fd0); }

off_t __real_lseek(int, off_t, int);
off_t __wrap_lseek(int fd, off_t off, int whence) {
  if (is_urandom_fd(fd)) return 0; // seeking a character device succeeds and means nothing
  if (!is_virtual(fd)) return __real_lseek(fd, off, whence);
  OpenFile* of = live_fd(fd);
  if (!of) return -1;
  if (of->ino->kind != Kind::REG) {
    g_world.calls.natural_errors++;
    errno = ESPIPE;
    return -1;
  }
  int64_t base = whence == SEEK_SET ? 0 : (whence == SEEK_CUR ? (int64_t)of->pos : (whence == SEEK_END ? (int64_t)(of->ino->sizeless ? 0 : of->ino->data.size()) : -1));
  if (base < 0 || base + off < 0) {
    errno = EINVAL;
    return -1;
  }
  if (whence == SEEK_END && !of->ino->appended_after_size_query.empty()) {
    of->ino->data += of->ino->appended_after_size_query;
    of->ino->appended_after_size_query.clear();
    VS_FAULT("file_grows_after_size_query");
  }
  of->pos = base + off;
  vsim::ev("lseek", whence, of->pos);
  return of->pos;
}

int __real_ftruncate(int, off_t);
int __wrap_ftruncate(int fd, off_t len) {
  if (!is_virtual(fd)) return __real_ftruncate(fd, len);
  OpenFile* of = live_fd(fd);
  if (!of) return -1;
  if (of->ino->kind != Kind::REG || (of->flags & O_ACCMODE) == O_RDONLY || len < 0) {
    errno = EINVAL;
    return -1;
  }
  of->ino->data.resize(len);
  vsim::ev("ftruncate", len);
  return 0;
}

// path of `path` relative to directory descriptor `dirfd` ("" if that cannot be expressed in the simulation)
static bool at_path(int dirfd, const char* path, std::string& out, bool& simulated) {
  simulated = false;
  if (!path) return false;
  if (path[0] == '/' || dirfd == AT_FDCWD) {
    out = path;
    simulated = is_sim_path(path);
    return true;
  }
  if (!is_virtual(dirfd)) return true; // a real directory descriptor: not ours
  OpenFile* of = live_fd(dirfd);
  if (!of) return false;
  if (of->ino->kind != Kind::DIR) {
    errno = ENOTDIR;
    return false;
  }
  out = of->path + "/" + path;
  simulated = true;
  return true;
}

int __real_openat(int, const char*, int, ...);
int __wrap_openat(int dirfd, const char* path, int flags, ...) {
  mode_t mode = 0;
  if (flags & O_CREAT) {
    va_list va;
    va_start(va, flags);
    mode = va_arg(va, int);
    va_end(va);
  }
  std::string p;
  bool sim;
  if (!at_path(dirfd, path, p, sim)) return -1;
  if (!sim && !(path && !strcmp(path, "/dev/urandom"))) return __real_openat(dirfd, path, flags, mode);
  return __wrap_open(p.c_str(), flags, mode);
}

int __real_fstatat(int, const char*, struct stat*, int);
int __wrap_fstatat(int dirfd, const char* path, struct stat* st, int flags) {
  if (path && !path[0] && (flags & AT_EMPTY_PATH) && is_virtual(dirfd)) return __wrap_fstat(dirfd, st);
  std::string p;
  bool sim;
  if (!at_path(dirfd, path, p, sim)) return -1;
  if (!sim) return __real_fstatat(dirfd, path, st, flags);
  return stat_path(p.c_str(), st, !(flags & AT_SYMLINK_NOFOLLOW));
}

int __real_unlinkat(int, const char*, int);
int __wrap_unlinkat(int dirfd, const char* path, int flags) {
  std::string p;
  bool sim;
  if (!at_path(dirfd, path, p, sim)) return -1;
  if (!sim) return __real_unlinkat(dirfd, path, flags);
  return (flags & AT_REMOVEDIR) ? __wrap_rmdir(p.c_str()) : __wrap_unlink(p.c_str());
}

ssize_t __real_readv(int, const struct iovec*, int);
ssize_t __wrap_readv(int fd, const struct iovec* iov, int n) {
  if (!is_virtual(fd) && !is_urandom_fd(fd)) return __real_readv(fd, iov, n);
  size_t total = 0;
  for (int i = 0; i < n; i++) total += iov[i].iov_len;
  std::string tmp(total, '\0');
  ssize_t r = __wrap_read(fd, tmp.data(), total);
  size_t off = 0;
  for (int i = 0; i < n && r > 0 && off < (size_t)r; i++) {
    size_t k = std::min(iov[i].iov_len, (size_t)r - off);
    memcpy(iov[i].iov_base, tmp.data() + off, k);
    off += k;
  }
  return r;
}

ssize_t __real_writev(int, const struct iovec*, int);
ssize_t __wrap_writev(int fd, const struct iovec* iov, int n) {
  if (!is_virtual(fd)) return __real_writev(fd, iov, n);
  std::string tmp;
  for (int i = 0; i < n; i++) tmp.append((const char*)iov[i].iov_base, iov[i].iov_len);
  return __wrap_write(fd, tmp.data(), tmp.size());
}

int __real_ppoll(struct pollfd*, nfds_t, const struct timespec*, const sigset_t*);
int __wrap_ppoll(struct pollfd* pfds, nfds_t n, const struct timespec* ts, const sigset_t* mask) {
  bool any_virtual = false;
  for (nfds_t i = 0; i < n; i++) any_virtual |= is_virtual(pfds[i].fd);
  if (!any_virtual && !(n == 0 && g_world.own_empty_polls)) return __real_ppoll(pfds, n, ts, mask);
  int ms = ts ? (int)(ts->tv_sec * 1000 + (ts->tv_nsec + 999999) / 1000000) : -1;
  return __wrap_poll(pfds, n, ms);
}

static FakeDir* new_fake_dir(std::shared_ptr<Inode> n);

DIR* __wrap_opendir(const char* path) {
  if (!is_sim_path(path)) return __real_opendir(path);
  if (g_world.between_dir_calls) g_world.between_dir_calls();
  auto n = lookup_follow(path);
  if (!n) {
    g_world.calls.natural_errors++;
    errno = ENOENT;
    return nullptr;
  }
  if (n->kind != Kind::DIR) {
    g_world.calls.natural_errors++;
    errno = ENOTDIR;
    return nullptr;
  }
  FakeDir* d = new_fake_dir(n);
  d->path = path;
  vsim::ev("opendir", d->names.size());
  return (DIR*)d;
}

DIR* __real_fdopendir(int);
DIR* __wrap_fdopendir(int fd) {
  if (!is_virtual(fd)) return __real_fdopendir(fd);
  OpenFile* of = live_fd(fd);
  if (!of) return nullptr;
  if (of->ino->kind != Kind::DIR) {
    g_world.calls.natural_errors++;
    errno = ENOTDIR;
    return nullptr;
  }
  FakeDir* d = new_fake_dir(of->ino);
  d->owned_fd = fd;
  d->path = of->path;
  vsim::ev("fdopendir", d->names.size());
  return (DIR*)d;
}

static FakeDir* new_fake_dir(std::shared_ptr<Inode> n) {
  FakeDir* d = new FakeDir();
  d->ino = n;
  d->names.push_back(".");
  d->names.push_back("..");
  for (auto& kv : n->entries) d->names.push_back(kv.first);
  if (g_world.shuffle_readdir) {
    // order of readdir() is unspecified: a simulator decision (Fisher-Yates from the tape)
    for (size_t i = d->names.size(); i > 1; i--) {
      size_t j = choose(i, "readdir.order");
      std::swap(d->names[i - 1], d->names[i - 1 - j]);
    }
  }
  g_dirs.insert(d);
  return d;
}

struct dirent* __wrap_readdir(DIR* dir) {
  FakeDir* d = (FakeDir*)dir;
  if (!g_dirs.count(d)) return __real_readdir(dir);
  if (!tick()) {
    errno = EIO;
    return nullptr;
  }
  if (g_world.between_dir_calls) g_world.between_dir_calls();
  // entries removed since opendir are skipped (as a real directory stream may do)
  while (d->pos < d->names.size()) {
    const std::string& name = d->names[d->pos++];
    if (name != "." && name != ".." && !d->ino->entries.count(name)) continue;
    memset(&d->ent, 0, sizeof(d->ent));
    strncpy(d->ent.d_name, name.c_str(), sizeof(d->ent.d_name) - 1);
    d->ent.d_ino = 1;
    d->ent.d_type = DT_UNKNOWN;
    if (g_world.dirent_types_known) {
      if (name == "." || name == "..") d->ent.d_type = DT_DIR;
      else {
        auto it = d->ino->entries.find(name);
        if (it != d->ino->entries.end()) {
          switch (it->second->kind) {
            case Kind::DIR: d->ent.d_type = DT_DIR; break;
            case Kind::REG: d->ent.d_type = DT_REG; break;
            case Kind::SYMLINK: d->ent.d_type = DT_LNK; break;
            case Kind::STREAM: d->ent.d_type = DT_FIFO; break;
            default: d->ent.d_type = DT_CHR; break;
          }
        }
      }
    }
    return &d->ent;
  }
  return nullptr;
}

int __wrap_closedir(DIR* dir) {
  FakeDir* d = (FakeDir*)dir;
  if (!g_dirs.count(d)) return __real_closedir(dir);
  g_dirs.erase(d);
  int owned = d->owned_fd;
  delete d;
  if (owned >= 0) return __wrap_close(owned); // closedir() closes the descriptor handed to fdopendir()
  return 0;
}

int __real_dirfd(DIR*);
int __wrap_dirfd(DIR* dir) {
  FakeDir* d = (FakeDir*)dir;
  if (!g_dirs.count(d)) return __real_dirfd(dir);
  if (d->owned_fd < 0) d->owned_fd = alloc_fd(d->ino, O_RDONLY | O_DIRECTORY, d->path);
  return d->owned_fd;
}

int __real_scandir(const char*, struct dirent***, int (*)(const struct dirent*), int (*)(const struct dirent**, const struct dirent**));
int __wrap_scandir(const char* path, struct dirent*** out, int (*filter)(const struct dirent*), int (*compar)(const struct dirent**, const struct dirent**)) {
  if (!is_sim_path(path)) return __real_scandir(path, out, filter, compar);
  DIR* d = __wrap_opendir(path);
  if (!d) return -1;
  std::vector<struct dirent*> v;
  while (struct dirent* e = __wrap_readdir(d)) {
    if (filter && !filter(e)) continue;
    struct dirent* c = (struct dirent*)malloc(sizeof(struct dirent));
    memcpy(c, e, sizeof(struct dirent));
    v.push_back(c);
  }
  __wrap_closedir(d);
  if (compar) std::sort(v.begin(), v.end(), [&](struct dirent* a, struct dirent* b) { return compar((const struct dirent**)&a, (const struct dirent**)&b) < 0; });
  *out = (struct dirent**)malloc(sizeof(struct dirent*) * (v.size() ? v.size() : 1));
  for (size_t i = 0; i < v.size(); i++) (*out)[i] = v[i];
  return (int)v.size();
}

int __wrap_unlink(const char* path) {
  if (!is_sim_path(path)) return __real_unlink(path);
  if (!tick()) {
    errno = EIO;
    return -1;
  }
  if (g_world.between_dir_calls) g_world.between_dir_calls();
  std::string leaf;
  auto parent = lookup_parent(path, leaf);
  if (!parent || !parent->entries.count(leaf)) {
    g_world.calls.natural_errors++;
    errno = ENOENT;
    vsim::ev("unlink.ENOENT");
    return -1;
  }
  auto n = parent->entries[leaf];
  if (n->kind == Kind::DIR) {
    g_world.calls.natural_errors++;
    errno = EISDIR;
    return -1;
  }
  if (n->deny_remove) {
    VS_FAULT("EACCES@unlink");
    g_world.calls.errors++;
    errno = EACCES;
    vsim::ev("unlink.EACCES");
    return -1;
  }
  parent->entries.erase(leaf);
  vsim::ev("unlink");
  return 0;
}

int __wrap_rmdir(const char* path) {
  if (!is_sim_path(path)) return __real_rmdir(path);
  if (!tick()) {
    errno = EIO;
    return -1;
  }
  if (g_world.between_dir_calls) g_world.between_dir_calls();
  std::string leaf;
  auto parent = lookup_parent(path, leaf);
  if (!parent || !parent->entries.count(leaf)) {
    g_world.calls.natural_errors++;
    errno = ENOENT;
    vsim::ev("rmdir.ENOENT");
    return -1;
  }
  auto n = parent->entries[leaf];
  if (n->kind != Kind::DIR) {
    g_world.calls.natural_errors++;
    errno = ENOTDIR;
    return -1;
  }
  if (!n->entries.empty()) {
    g_world.calls.natural_errors++;
    errno = ENOTEMPTY;
    vsim::ev("rmdir.ENOTEMPTY");
    return -1;
  }
  if (n->deny_remove) {
    VS_FAULT("EACCES@rmdir");
    g_world.calls.errors++;
    errno = EACCES;
    vsim::ev("rmdir.EACCES");
    return -1;
  }
  parent->entries.erase(leaf);
  vsim::ev("rmdir");
  return 0;
}

} // extern "C"
