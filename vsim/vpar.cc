// vpar implementation. See vpar.hh. Compiled without sanitizers.
#include "vpar.hh"
#include <stdint.h>

#include <stdio.h>
#include <stdlib.h>
#include <string.h>
#include <sys/mman.h>
#include <ucontext.h>

#include <algorithm>
#include <string>

#include "vsim.hh"

extern "C" {
// ASan
void __sanitizer_start_switch_fiber(void** fake_stack_save, const void* bottom, size_t size) __attribute__((weak));
void __sanitizer_finish_switch_fiber(void* fake_stack_save, const void** bottom_old, size_t* size_old) __attribute__((weak));
void __asan_unpoison_memory_region(void const volatile* addr, size_t size) __attribute__((weak));
// TSan
void* __tsan_get_current_fiber(void) __attribute__((weak));
void* __tsan_create_fiber(unsigned flags) __attribute__((weak));
void __tsan_destroy_fiber(void* fiber) __attribute__((weak));
void __tsan_switch_to_fiber(void* fiber, unsigned flags) __attribute__((weak));
void __tsan_acquire(void* addr) __attribute__((weak));
void __tsan_release(void* addr) __attribute__((weak));
}

namespace vpar {

namespace {

const size_t STACK_SIZE = 256 * 1024;

struct Task {
  int id = 0;
  ucontext_t ctx;
  char* stack = nullptr;
  const void* asan_bottom = nullptr;
  size_t asan_size = 0;
  std::function<void()> fn;
  enum St { RUNNABLE, BLOCKED, SLEEPING, FINISHED } st = RUNNABLE;
  int join_target = -1;
  const void* wait_addr = nullptr; // wait_on(): woken by wake_all() on the same address (or by its timer)
  uint64_t wake = 0;
  void* tsan_fiber = nullptr;
  int priority = 0;
  bool started = false;
  char spawn_sync = 0; // addresses used for TSan happens-before edges
  char done_sync = 0;
};

std::vector<Task*> g_tasks;
std::vector<char*> g_stack_pool;
int g_cur = 0;
int g_prev = 0;
Config g_cfg;
uint64_t g_clock = 0;
bool g_abort = false;
bool g_budget = false;
bool g_deadlock = false;
Stats g_stats;
std::vector<Call> g_calls;
uint64_t g_progress_calls = 0;
int g_in_callback = 0;
std::vector<uint64_t> g_pct_points;
int g_pct_low = 0;
int g_rr_left = 0;

char* alloc_stack() {
  if (!g_stack_pool.empty()) {
    char* s = g_stack_pool.back();
    g_stack_pool.pop_back();
    if (__asan_unpoison_memory_region) __asan_unpoison_memory_region(s, STACK_SIZE);
    return s;
  }
  void* p = mmap(nullptr, STACK_SIZE + 4096, PROT_READ | PROT_WRITE, MAP_PRIVATE | MAP_ANONYMOUS | MAP_STACK, -1, 0);
  if (p == MAP_FAILED) vsim::harness_bug("vpar: cannot allocate a fiber stack");
  mprotect(p, 4096, PROT_NONE); // guard page below the stack
  return (char*)p + 4096;
}

void after_switch(void* fake) {
  // runs in the resumed context: tell ASan the switch is complete and learn the bounds of the
  // stack we came from (needed for the main task, whose stack we did not allocate)
  if (__sanitizer_finish_switch_fiber) {
    const void* bottom = nullptr;
    size_t size = 0;
    __sanitizer_finish_switch_fiber(fake, &bottom, &size);
    Task* from = g_tasks[g_prev];
    if (!from->asan_bottom) {
      from->asan_bottom = bottom;
      from->asan_size = size;
    }
  }
}

void switch_to(int next) {
  Task* from = g_tasks[g_cur];
  Task* to = g_tasks[next];
  g_prev = g_cur;
  g_cur = next;
  g_stats.switches++;
  void* fake = nullptr;
  bool dying = from->st == Task::FINISHED;
  if (__sanitizer_start_switch_fiber) __sanitizer_start_switch_fiber(dying ? nullptr : &fake, to->asan_bottom, to->asan_size);
  if (__tsan_switch_to_fiber) __tsan_switch_to_fiber(to->tsan_fiber, 1 /* no synchronisation */);
  swapcontext(&from->ctx, &to->ctx);
  after_switch(fake);
}

void wake_sleepers_if_idle(std::vector<int>& runnable) {
  if (!runnable.empty()) return;
  // nothing can run: jump the clock to the earliest timer
  int best = -1;
  for (Task* t : g_tasks)
    if (t->st == Task::SLEEPING && (best < 0 || t->wake < g_tasks[best]->wake)) best = t->id;
  if (best >= 0) {
    if (g_tasks[best]->wake > g_clock) {
      vsim::add_sim_time_us(g_tasks[best]->wake - g_clock);
      g_clock = g_tasks[best]->wake;
    }
    g_tasks[best]->st = Task::RUNNABLE;
    runnable.push_back(best);
  }
}

std::vector<int> runnable_set() {
  std::vector<int> r;
  for (Task* t : g_tasks) {
    if (t->st == Task::FINISHED) continue;
    if (g_abort || t->st == Task::RUNNABLE) r.push_back(t->id);
  }
  return r;
}

int pick_next(const char* op) {
  std::vector<int> r = runnable_set();
  if (!g_abort && g_cfg.wake_early_den) {
    // a timer may fire while others are still busy (their steps take arbitrarily long)
    int best = -1;
    for (Task* t : g_tasks)
      if (t->st == Task::SLEEPING && (best < 0 || t->wake < g_tasks[best]->wake)) best = t->id;
    if (best >= 0 && !r.empty() && vsim::chance(1, g_cfg.wake_early_den, "sched.timer_early")) {
      if (g_tasks[best]->wake > g_clock) {
        vsim::add_sim_time_us(g_tasks[best]->wake - g_clock);
        g_clock = g_tasks[best]->wake;
      }
      g_tasks[best]->st = Task::RUNNABLE;
      g_stats.timers_fired_early++;
      r = runnable_set();
    }
  }
  wake_sleepers_if_idle(r);
  if (r.empty()) {
    // no task can make a step and no timer is pending
    g_deadlock = true;
    g_abort = true;
    r = runnable_set();
    if (r.empty()) vsim::harness_bug("vpar: no task left to run");
  }
  int next;
  if (g_abort) {
    next = r[0];
  } else {
    switch (g_cfg.strategy) {
      case UNIFORM:
        next = r[vsim::choose(r.size(), "sched.pick")];
        break;
      case PCT: {
        for (uint64_t p : g_pct_points)
          if (p == g_stats.steps) g_tasks[g_cur]->priority = --g_pct_low;
        next = r[0];
        for (int id : r)
          if (g_tasks[id]->priority > g_tasks[next]->priority) next = id;
        break;
      }
      case STARVE: {
        std::vector<int> others;
        for (int id : r)
          if (id != g_cfg.starve_victim) others.push_back(id);
        if (others.empty()) next = r[0];
        else next = others[vsim::choose(others.size(), "sched.pick")];
        break;
      }
      case ROUND_ROBIN: {
        bool cur_ok = std::find(r.begin(), r.end(), g_cur) != r.end();
        if (cur_ok && g_rr_left > 0) {
          g_rr_left--;
          next = g_cur;
        } else {
          next = r[0];
          for (int id : r)
            if (id > g_cur) {
              next = id;
              break;
            }
          g_rr_left = g_cfg.quantum;
        }
        break;
      }
      default:
        next = r[0];
    }
  }
  g_stats.steps++;
  g_clock++;
  g_stats.schedule_hash = vsim::mix64(g_stats.schedule_hash ^ ((uint64_t)next << 32) ^ (uint64_t)(uintptr_t)op[0] ^ ((uint64_t)op[1] << 8));
  if (!g_abort && g_stats.steps > g_cfg.step_budget) {
    g_budget = true;
    g_abort = true;
  }
  return next;
}

void schedule(const char* op, uint64_t arg, bool may_throw = true) {
  int from = g_cur;
  int next = pick_next(op);
  vsim::ev(op, from, next, arg);
  if (next != g_cur) switch_to(next);
  if (may_throw && g_abort && g_tasks[g_cur]->st != Task::FINISHED) throw vsim::AbortRun();
}

void trampoline() {
  after_switch(nullptr);
  Task* t = g_tasks[g_cur];
  if (__tsan_acquire) __tsan_acquire(&t->spawn_sync);
  try {
    if (g_abort) throw vsim::AbortRun();
    t->fn();
  } catch (const vsim::AbortRun&) {
    g_abort = true; // a violation was recorded inside this task: drain everybody
  } catch (const std::exception& e) {
    vsim::fail_soft("thread/uncaught_exception", "terminate", std::string("an exception escaped a worker thread function (std::terminate in a real program): ") + e.what());
    g_abort = true;
  } catch (...) {
    vsim::fail_soft("thread/uncaught_exception", "terminate", "a non-standard exception escaped a worker thread function");
    g_abort = true;
  }
  // (no Quiet here: this context is abandoned below and must not die with TSan ignores held)
  t->fn = nullptr;
  if (__tsan_release) __tsan_release(&t->done_sync);
  t->st = Task::FINISHED;
  for (Task* o : g_tasks)
    if (o->st == Task::BLOCKED && o->join_target == t->id) o->st = Task::RUNNABLE;
  int next = pick_next("exit");
  vsim::ev("exit", t->id, next);
  switch_to(next);
  vsim::harness_bug("vpar: finished task was resumed");
}

} // namespace

void reset(const Config& cfg) {
  vsim::Quiet quiet;
  // leftovers of a previous run: every task must have finished (abort drains them)
  for (size_t i = 1; i < g_tasks.size(); i++) {
    Task* t = g_tasks[i];
    if (t->st != Task::FINISHED) vsim::harness_bug("vpar: a task of the previous run is still alive");
    if (__tsan_acquire) __tsan_acquire(&t->done_sync);
    if (t->tsan_fiber && __tsan_destroy_fiber) __tsan_destroy_fiber(t->tsan_fiber);
    if (t->stack) g_stack_pool.push_back(t->stack);
    delete t;
  }
  if (g_tasks.empty()) {
    Task* m = new Task();
    m->id = 0;
    m->started = true;
    g_tasks.push_back(m);
  }
  g_tasks.resize(1);
  g_tasks[0]->st = Task::RUNNABLE;
  g_tasks[0]->priority = 0;
  g_tasks[0]->tsan_fiber = __tsan_get_current_fiber ? __tsan_get_current_fiber() : nullptr;
  g_cur = 0;
  g_prev = 0;
  g_cfg = cfg;
  g_clock = 1000000; // simulated epoch (non-zero so elapsed-time arithmetic is ordinary)
  g_abort = g_budget = g_deadlock = false;
  g_stats = Stats();
  g_calls.clear();
  g_progress_calls = 0;
  g_in_callback = 0;
  g_pct_points.clear();
  g_pct_low = 0;
  g_rr_left = cfg.quantum;
  if (cfg.strategy == PCT) {
    for (int i = 0; i < cfg.pct_depth; i++) g_pct_points.push_back(vsim::choose(120, "sched.pct_point"));
    g_tasks[0]->priority = 500 + vsim::choose(500, "sched.pct_prio");
  }
}

int spawn(std::function<void()> fn) {
  vsim::Quiet quiet;
  Task* t = new Task();
  t->id = g_tasks.size();
  t->fn = std::move(fn);
  t->stack = alloc_stack();
  t->asan_bottom = t->stack;
  t->asan_size = STACK_SIZE;
  t->priority = g_cfg.strategy == PCT ? (int)(500 + vsim::choose(500, "sched.pct_prio")) : 0;
  if (__tsan_create_fiber) t->tsan_fiber = __tsan_create_fiber(0);
  getcontext(&t->ctx);
  t->ctx.uc_stack.ss_sp = t->stack;
  t->ctx.uc_stack.ss_size = STACK_SIZE;
  t->ctx.uc_link = nullptr;
  makecontext(&t->ctx, (void (*)())trampoline, 0);
  if (__tsan_release) __tsan_release(&t->spawn_sync);
  g_tasks.push_back(t);
  // never unwind out of a thread constructor after the task exists (the std::thread object would not
  // be constructed and nobody would own the task); an abort is delivered at the next scheduling point
  schedule("spawn", t->id, false);
  return t->id;
}

void join(int id) {
  vsim::Quiet quiet;
  Task* me = g_tasks[g_cur];
  Task* t = g_tasks.at(id);
  schedule("join", id);
  while (t->st != Task::FINISHED) {
    me->st = Task::BLOCKED;
    me->join_target = id;
    schedule("join.wait", id);
    if (me->st == Task::BLOCKED) me->st = Task::RUNNABLE; // resumed by an abort
  }
  me->join_target = -1;
  if (__tsan_acquire) __tsan_acquire(&t->done_sync);
}

bool is_finished(int id) { return g_tasks.at(id)->st == Task::FINISHED; }

// Non-throwing: used while unwinding (destructors) and at the end of a run. Runs the other tasks
// until `id` (or, with id < 0, every task but the caller) has finished. Requires abort mode, in
// which every task leaves through AbortRun at its next scheduling point.
void drain(int id) {
  vsim::Quiet quiet;
  g_abort = true;
  Task* me = g_tasks[g_cur];
  for (;;) {
    int next = -1;
    for (Task* t : g_tasks) {
      if (t == me || t->st == Task::FINISHED) continue;
      if (id >= 0 && t->id != id) continue;
      next = t->id;
      break;
    }
    if (next < 0) break;
    g_stats.steps++;
    if (g_stats.steps > g_cfg.step_budget * 4 + 100000) vsim::harness_bug("vpar: tasks do not terminate in abort mode");
    switch_to(next);
  }
  // the caller has now observed the end of these tasks (what join() establishes on the normal path)
  if (__tsan_acquire)
    for (Task* t : g_tasks)
      if (t != me && t->st == Task::FINISHED && (id < 0 || t->id == id)) __tsan_acquire(&t->done_sync);
}

void yield_point(const char* op, uint64_t arg) {
  vsim::Quiet quiet;
  schedule(op, arg);
}

void sleep_us(uint64_t us) {
  vsim::Quiet quiet;
  Task* me = g_tasks[g_cur];
  me->st = Task::SLEEPING;
  me->wake = g_clock + us;
  schedule("sleep", us);
  if (me->st == Task::SLEEPING) me->st = Task::RUNNABLE; // resumed by an abort
}

// A task waits for an event identified by an address (what a condition variable or a contended mutex does),
// with or without a time limit; wake_all() makes every waiter on that address runnable. A waiter without time
// limit that nobody wakes is found by the deadlock test like any blocked task.
void wait_on(const void* addr, uint64_t timeout_us) {
  vsim::Quiet quiet;
  Task* me = g_tasks[g_cur];
  me->wait_addr = addr;
  if (timeout_us == UINT64_MAX) {
    me->st = Task::BLOCKED;
    me->join_target = -1;
  } else {
    me->st = Task::SLEEPING;
    me->wake = g_clock + timeout_us;
  }
  schedule("wait", timeout_us == UINT64_MAX ? 0 : timeout_us);
  me->wait_addr = nullptr;
  if (me->st == Task::SLEEPING || me->st == Task::BLOCKED) me->st = Task::RUNNABLE; // resumed by an abort
}

void wake_all(const void* addr) {
  vsim::Quiet quiet;
  for (Task* t : g_tasks)
    if (t->wait_addr == addr && (t->st == Task::BLOCKED || t->st == Task::SLEEPING)) {
      t->st = Task::RUNNABLE;
      t->wait_addr = nullptr;
    }
}

uint64_t now_us() { return g_clock; }
int current() { return g_cur; }
int task_count() { return g_tasks.size(); }

void abort_run() { g_abort = true; }
bool aborting() { return g_abort; }
bool budget_exhausted() { return g_budget; }
bool deadlocked() { return g_deadlock; }

void rec_call(uint64_t value, uint64_t thread_num, bool returned_true) {
  vsim::Quiet quiet;
  g_calls.push_back({value, thread_num, g_cur, returned_true});
}
const std::vector<Call>& calls() { return g_calls; }
void rec_progress(uint64_t) { g_progress_calls++; }
uint64_t progress_calls() { return g_progress_calls; }
const Stats& stats() { return g_stats; }

void callback_enter() {
  g_in_callback++;
  if ((uint64_t)g_in_callback > g_stats.max_concurrent_in_callback) g_stats.max_concurrent_in_callback = g_in_callback;
}
void callback_exit() { g_in_callback--; }

} // namespace vpar
