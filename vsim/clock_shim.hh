// Force-included (-include) into every translation unit of the REPOSITORY that the harness compiles. The clocks of
// std::chrono are code of libstdc++.so, beyond link-time interposition; this header retargets their NAMES, inside
// repository code only, to clocks that ask the running engine for the time. An engine that simulates time defines
// vsim_sim_clock_us(); where it is absent (every engine but sim-proc) the real clocks answer as before. The
// repository does not use these clocks today: this matters only for changed code (DESIGN.md 10, 14.3).
#pragma once
#ifdef __cplusplus
#include <chrono>
#include <condition_variable>
#include <future>
#include <mutex>
#include <shared_mutex>
#include <thread>
#if __cplusplus >= 202002L
#include <semaphore>
#include <stop_token>
#endif

extern "C" unsigned long long vsim_sim_clock_us(void) __attribute__((weak));

namespace std {
namespace chrono {

struct vsim_steady_clock {
  typedef nanoseconds duration;
  typedef duration::rep rep;
  typedef duration::period period;
  typedef chrono::time_point<vsim_steady_clock, duration> time_point;
  static constexpr bool is_steady = true;
  static time_point now() noexcept {
    if (vsim_sim_clock_us) return time_point(duration_cast<duration>(microseconds((long long)vsim_sim_clock_us())));
    return time_point(steady_clock::now().time_since_epoch());
  }
};

struct vsim_system_clock {
  typedef nanoseconds duration;
  typedef duration::rep rep;
  typedef duration::period period;
  typedef chrono::time_point<vsim_system_clock, duration> time_point;
  static constexpr bool is_steady = false;
  static time_point now() noexcept {
    if (vsim_sim_clock_us) return time_point(duration_cast<duration>(microseconds((long long)vsim_sim_clock_us())));
    return time_point(system_clock::now().time_since_epoch());
  }
  static time_t to_time_t(const time_point& t) noexcept { return (time_t)duration_cast<seconds>(t.time_since_epoch()).count(); }
  static time_point from_time_t(time_t t) noexcept { return time_point(duration_cast<duration>(seconds(t))); }
};

} // namespace chrono
} // namespace std

#define steady_clock vsim_steady_clock
#define system_clock vsim_system_clock
#define high_resolution_clock vsim_steady_clock
#endif
