/* placeholder: replaced by the lock-step child of sim-proc */
int main(void) { return 0; }
