/* vsim-child: the scripted peer process of sim-proc (C15).
 *
 * It is exec'ed by the REAL phosg::Subprocess constructor (so the real dup2/close/exec sequence
 * runs), then parks in a blocking read on the inherited control socket (fd 200) and performs exactly
 * one NON-BLOCKING step of its script per 'S' command, replying with what happened. The simulator
 * therefore decides when the child runs; the operating system never chooses between parent and child.
 *
 * Script (argv[1]): actions separated by ';'
 *   R:<n>            read n bytes from stdin (stops early at EOF)
 *   RA               read stdin until EOF
 *   W1:<n>:<chunk>   write n pattern bytes to stdout, at most <chunk> per step
 *   W2:<n>:<chunk>   same for stderr
 *   CAT:<chunk>      copy stdin to stdout until EOF
 *   C0 / C1 / C2     close a standard descriptor
 *   SLEEP:<usecs>    simulated sleep (the simulator holds the child; nothing real happens)
 *   IGNTERM          ignore SIGTERM from now on
 *   STOP:<usecs>     stop itself (SIGSTOP, as job control or a debugger would); the simulator continues it after
 *                    <usecs> of simulated time. Replies once before stopping and once after being continued.
 *   HOLD             fork a passive grandchild that inherits stdout/stderr and only pause()s, so the pipes
 *                    stay open for writing after this process has exited (its pid is reported in aux)
 *   EXIT:<code>      _exit(code)
 *   KILL:<sig>       raise(sig) with default disposition
 * After the last action the child exits with status 0.
 *
 * Output pattern: byte i of stream s is PAT(s,i); the parent recomputes it. Input is summarised by
 * a byte count and an FNV-1a hash.
 */
#include <errno.h>
#include <fcntl.h>
#include <signal.h>
#include <stdint.h>
#include <stdio.h>
#include <stdlib.h>
#include <string.h>
#include <unistd.h>

#define CTL_FD 200
#define MAX_ACTIONS 320

enum { A_R, A_RA, A_W1, A_W2, A_CAT, A_C0, A_C1, A_C2, A_SLEEP, A_IGNTERM, A_EXIT, A_KILL, A_HOLD, A_STOP };
enum { ST_RUNNABLE = 0, ST_BLOCKED_READ = 1, ST_BLOCKED_W1 = 2, ST_BLOCKED_W2 = 3, ST_SLEEPING = 4, ST_EXITING = 5, ST_STOPPING = 6 };

struct action {
  int kind;
  uint64_t n;
  uint64_t chunk;
  uint64_t done;
};

struct reply {
  uint8_t state;
  uint8_t stdin_eof;
  uint8_t out_closed; /* bit0: stdout gave EPIPE, bit1: stderr gave EPIPE */
  uint8_t exit_kind; /* 0 none, 1 exit code, 2 signal */
  int32_t exit_value;
  uint32_t pc;
  int32_t last_result; /* bytes moved by this step, or -errno */
  uint64_t aux; /* sleep duration */
  uint64_t read_total;
  uint64_t read_hash;
  uint64_t w1_total;
  uint64_t w2_total;
};

static struct action acts[MAX_ACTIONS];
static int nacts = 0;
static int pc = 0;
static struct reply rp;
static unsigned char buf[1 << 16];
static uint64_t cat_have = 0, cat_off = 0;

static unsigned char pat(int s, uint64_t i) { return (unsigned char)((i * 131u + (unsigned)s * 17u + (i >> 8)) & 0xFF); }

static void hash_in(const unsigned char* p, size_t n) {
  for (size_t i = 0; i < n; i++) {
    rp.read_hash ^= p[i];
    rp.read_hash *= 0x100000001B3ULL;
  }
  rp.read_total += n;
}

static void set_nonblock(int fd) {
  int fl = fcntl(fd, F_GETFL, 0);
  if (fl >= 0) fcntl(fd, F_SETFL, fl | O_NONBLOCK);
}

static void parse(const char* s) {
  char* dup = strdup(s);
  char* save = NULL;
  for (char* tok = strtok_r(dup, ";", &save); tok && nacts < MAX_ACTIONS; tok = strtok_r(NULL, ";", &save)) {
    struct action* a = &acts[nacts];
    memset(a, 0, sizeof(*a));
    char name[16] = {0};
    unsigned long long x = 0, y = 0;
    int got = sscanf(tok, "%15[A-Z0-9]:%llu:%llu", name, &x, &y);
    if (got < 1) continue;
    a->n = x;
    a->chunk = y ? y : 4096;
    if (!strcmp(name, "R")) a->kind = A_R;
    else if (!strcmp(name, "RA")) a->kind = A_RA;
    else if (!strcmp(name, "W1")) a->kind = A_W1;
    else if (!strcmp(name, "W2")) a->kind = A_W2;
    else if (!strcmp(name, "CAT")) {
      a->kind = A_CAT;
      a->chunk = x ? x : 4096;
    } else if (!strcmp(name, "C0")) a->kind = A_C0;
    else if (!strcmp(name, "C1")) a->kind = A_C1;
    else if (!strcmp(name, "C2")) a->kind = A_C2;
    else if (!strcmp(name, "SLEEP")) a->kind = A_SLEEP;
    else if (!strcmp(name, "IGNTERM")) a->kind = A_IGNTERM;
    else if (!strcmp(name, "HOLD")) a->kind = A_HOLD;
    else if (!strcmp(name, "STOP")) a->kind = A_STOP;
    else if (!strcmp(name, "EXIT")) a->kind = A_EXIT;
    else if (!strcmp(name, "KILL")) a->kind = A_KILL;
    else continue;
    if (a->chunk > sizeof(buf)) a->chunk = sizeof(buf);
    nacts++;
  }
  free(dup);
}

static void send_reply(void) {
  rp.pc = pc;
  const char* p = (const char*)&rp;
  size_t off = 0;
  while (off < sizeof(rp)) {
    ssize_t n = write(CTL_FD, p + off, sizeof(rp) - off);
    if (n <= 0) {
      if (n < 0 && errno == EINTR) continue;
      _exit(97);
    }
    off += n;
  }
}

/* writes up to chunk bytes of pattern to fd (1 or 2); returns 1 if the action is finished */
static int step_write(struct action* a, int fd) {
  uint64_t* total = fd == 1 ? &rp.w1_total : &rp.w2_total;
  if (rp.out_closed & (fd == 1 ? 1 : 2)) return 1;
  uint64_t left = a->n - a->done;
  if (!left) return 1;
  size_t k = left < a->chunk ? left : a->chunk;
  for (size_t i = 0; i < k; i++) buf[i] = pat(fd, *total + i);
  ssize_t r = write(fd, buf, k);
  if (r < 0) {
    rp.last_result = -errno;
    if (errno == EAGAIN || errno == EWOULDBLOCK) {
      rp.state = fd == 1 ? ST_BLOCKED_W1 : ST_BLOCKED_W2;
      return 0;
    }
    if (errno == EINTR) return 0;
    rp.out_closed |= (fd == 1 ? 1 : 2); /* EPIPE / EBADF: nobody will ever read this */
    return 1;
  }
  rp.last_result = (int32_t)r;
  a->done += r;
  *total += r;
  return a->done == a->n;
}

static void do_exit_action(int kind, int value) {
  rp.state = ST_EXITING;
  rp.exit_kind = kind;
  rp.exit_value = value;
  send_reply();
  if (kind == 2) {
    signal(value, SIG_DFL);
    raise(value);
    _exit(98); /* not reached for fatal signals */
  }
  _exit(value);
}

static void step(void) {
  rp.state = ST_RUNNABLE;
  rp.last_result = 0;
  rp.aux = 0;
  if (pc >= nacts) do_exit_action(1, 0);
  struct action* a = &acts[pc];
  switch (a->kind) {
    case A_R:
    case A_RA: {
      if (rp.stdin_eof) {
        pc++;
        break;
      }
      size_t k = a->chunk;
      if (a->kind == A_R) {
        uint64_t left = a->n - a->done;
        if (!left) {
          pc++;
          break;
        }
        if (left < k) k = left;
      }
      ssize_t r = read(0, buf, k);
      if (r < 0) {
        rp.last_result = -errno;
        if (errno == EAGAIN || errno == EWOULDBLOCK) rp.state = ST_BLOCKED_READ;
        else if (errno != EINTR) {
          rp.stdin_eof = 1; /* EBADF after C0 etc.: nothing more to read */
          pc++;
        }
        break;
      }
      rp.last_result = (int32_t)r;
      if (r == 0) {
        rp.stdin_eof = 1;
        pc++;
        break;
      }
      hash_in(buf, r);
      a->done += r;
      if (a->kind == A_R && a->done == a->n) pc++;
      break;
    }
    case A_W1:
      if (step_write(a, 1)) pc++;
      break;
    case A_W2:
      if (step_write(a, 2)) pc++;
      break;
    case A_CAT: {
      if (cat_have > cat_off) {
        if (rp.out_closed & 1) {
          cat_off = cat_have;
          break;
        }
        ssize_t r = write(1, buf + cat_off, cat_have - cat_off);
        if (r < 0) {
          rp.last_result = -errno;
          if (errno == EAGAIN || errno == EWOULDBLOCK) rp.state = ST_BLOCKED_W1;
          else if (errno != EINTR) rp.out_closed |= 1;
          break;
        }
        /* CAT output is the input, not the pattern: counted separately through w1_total */
        rp.last_result = (int32_t)r;
        cat_off += r;
        rp.w1_total += r;
        break;
      }
      if (rp.stdin_eof) {
        pc++;
        break;
      }
      ssize_t r = read(0, buf, a->chunk);
      if (r < 0) {
        rp.last_result = -errno;
        if (errno == EAGAIN || errno == EWOULDBLOCK) rp.state = ST_BLOCKED_READ;
        else if (errno != EINTR) {
          rp.stdin_eof = 1;
          pc++;
        }
        break;
      }
      rp.last_result = (int32_t)r;
      if (r == 0) {
        rp.stdin_eof = 1;
        pc++;
        break;
      }
      hash_in(buf, r);
      cat_have = r;
      cat_off = 0;
      break;
    }
    case A_C0:
      close(0);
      rp.stdin_eof = 1;
      pc++;
      break;
    case A_C1:
      close(1);
      rp.out_closed |= 1;
      pc++;
      break;
    case A_C2:
      close(2);
      rp.out_closed |= 2;
      pc++;
      break;
    case A_SLEEP:
      rp.state = ST_SLEEPING;
      rp.aux = a->n;
      pc++;
      break;
    case A_IGNTERM:
      signal(SIGTERM, SIG_IGN);
      pc++;
      break;
    case A_STOP:
      rp.state = ST_STOPPING;
      rp.aux = a->n;
      pc++;
      send_reply();
      raise(SIGSTOP); /* execution continues here after SIGCONT */
      rp.state = ST_RUNNABLE;
      rp.aux = 0;
      break;
    case A_HOLD: {
      /* handshake: this step only completes once the grandchild has dropped the descriptors it must
       * not hold, so that no pipe state depends on when the grandchild gets the CPU */
      int hs[2];
      if (pipe(hs)) _exit(93);
      pid_t g = fork();
      if (g == 0) {
        close(CTL_FD);
        close(0);
        close(hs[0]);
        char ok = 1;
        if (write(hs[1], &ok, 1) != 1) _exit(92);
        close(hs[1]);
        for (;;) pause(); /* passive: never touches the pipes, only keeps them open */
      }
      close(hs[1]);
      char ok = 0;
      while (read(hs[0], &ok, 1) < 0 && errno == EINTR) {
      }
      close(hs[0]);
      rp.aux = (uint64_t)g;
      pc++;
      break;
    }
    case A_EXIT:
      do_exit_action(1, (int)(a->n & 0xFF));
      break;
    case A_KILL:
      do_exit_action(2, (int)a->n);
      break;
  }
}

int main(int argc, char** argv) {
  signal(SIGPIPE, SIG_IGN);
  memset(&rp, 0, sizeof(rp));
  rp.read_hash = 0xCBF29CE484222325ULL;
  if (argc < 2) return 96;
  parse(argv[1]);
  /* what an ordinary program would have found: are the standard descriptors it was given in blocking mode?
   * (O_NONBLOCK is a property of the open file description and survives fork and exec; cat, head etc. fail
   * with EAGAIN on such descriptors). Reported in the hello reply, bit i = descriptor i is non-blocking. */
  for (int fd = 0; fd < 3; fd++) {
    int fl = fcntl(fd, F_GETFL, 0);
    if (fl >= 0 && (fl & O_NONBLOCK)) rp.aux |= (1u << fd);
  }
  set_nonblock(0);
  set_nonblock(1);
  set_nonblock(2);
  /* hello: the exec is complete, descriptors are in place */
  send_reply();
  for (;;) {
    char cmd;
    ssize_t n = read(CTL_FD, &cmd, 1);
    if (n < 0 && errno == EINTR) continue;
    if (n <= 0) _exit(95); /* simulator went away */
    if (cmd == 'S') {
      step();
      send_reply();
    } else if (cmd == 'Q') {
      _exit(94);
    }
  }
}
