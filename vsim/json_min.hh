// Minimal JSON reader used for replay files and known_findings.json (own code, no phosg).
#pragma once

#include <stdlib.h>

#include <string>
#include <utility>
#include <vector>

namespace jsonmin {

struct Value {
  enum Type { NUL, BOOL, NUM, STR, ARR, OBJ } type = NUL;
  double num = 0;
  bool b = false;
  std::string str;
  std::vector<Value> arr;
  std::vector<std::string> keys; // object members: keys[i] -> vals[i]
  std::vector<Value> vals;

  bool is_array() const { return type == ARR; }
  const Value* get(const std::string& k) const {
    if (type != OBJ) return nullptr;
    for (size_t i = 0; i < keys.size(); i++)
      if (keys[i] == k) return &vals[i];
    return nullptr;
  }
  std::string get_str(const std::string& k) const {
    const Value* v = get(k);
    return (v && v->type == STR) ? v->str : "";
  }
};

struct Parser {
  const std::string& s;
  size_t p = 0;
  std::string err;

  void ws() {
    while (p < s.size() && (s[p] == ' ' || s[p] == '\n' || s[p] == '\t' || s[p] == '\r')) p++;
  }
  bool fail(const std::string& m) {
    if (err.empty()) err = m + " at offset " + std::to_string(p);
    return false;
  }
  bool parse_string(std::string& out) {
    if (p >= s.size() || s[p] != '"') return fail("expected string");
    p++;
    while (p < s.size() && s[p] != '"') {
      if (s[p] == '\\') {
        p++;
        if (p >= s.size()) return fail("bad escape");
        char c = s[p++];
        switch (c) {
          case 'n': out += '\n'; break;
          case 't': out += '\t'; break;
          case 'r': out += '\r'; break;
          case 'b': out += '\b'; break;
          case 'f': out += '\f'; break;
          case 'u': {
            if (p + 4 > s.size()) return fail("bad \\u");
            unsigned v = strtoul(s.substr(p, 4).c_str(), nullptr, 16);
            p += 4;
            if (v < 0x80) {
              out += (char)v;
            } else if (v < 0x800) {
              out += (char)(0xC0 | (v >> 6));
              out += (char)(0x80 | (v & 0x3F));
            } else {
              out += (char)(0xE0 | (v >> 12));
              out += (char)(0x80 | ((v >> 6) & 0x3F));
              out += (char)(0x80 | (v & 0x3F));
            }
            break;
          }
          default: out += c;
        }
      } else {
        out += s[p++];
      }
    }
    if (p >= s.size()) return fail("unterminated string");
    p++;
    return true;
  }
  bool parse_value(Value& v, int depth = 0) {
    if (depth > 64) return fail("too deep");
    ws();
    if (p >= s.size()) return fail("unexpected end");
    char c = s[p];
    if (c == '{') {
      v.type = Value::OBJ;
      p++;
      ws();
      if (p < s.size() && s[p] == '}') {
        p++;
        return true;
      }
      for (;;) {
        ws();
        std::string k;
        if (!parse_string(k)) return false;
        ws();
        if (p >= s.size() || s[p] != ':') return fail("expected ':'");
        p++;
        Value x;
        if (!parse_value(x, depth + 1)) return false;
        v.keys.push_back(std::move(k));
        v.vals.push_back(std::move(x));
        ws();
        if (p < s.size() && s[p] == ',') {
          p++;
          continue;
        }
        if (p < s.size() && s[p] == '}') {
          p++;
          return true;
        }
        return fail("expected ',' or '}'");
      }
    } else if (c == '[') {
      v.type = Value::ARR;
      p++;
      ws();
      if (p < s.size() && s[p] == ']') {
        p++;
        return true;
      }
      for (;;) {
        Value x;
        if (!parse_value(x, depth + 1)) return false;
        v.arr.push_back(std::move(x));
        ws();
        if (p < s.size() && s[p] == ',') {
          p++;
          continue;
        }
        if (p < s.size() && s[p] == ']') {
          p++;
          return true;
        }
        return fail("expected ',' or ']'");
      }
    } else if (c == '"') {
      v.type = Value::STR;
      return parse_string(v.str);
    } else if (s.compare(p, 4, "true") == 0) {
      v.type = Value::BOOL;
      v.b = true;
      p += 4;
      return true;
    } else if (s.compare(p, 5, "false") == 0) {
      v.type = Value::BOOL;
      p += 5;
      return true;
    } else if (s.compare(p, 4, "null") == 0) {
      p += 4;
      return true;
    } else {
      char* end = nullptr;
      v.num = strtod(s.c_str() + p, &end);
      if (end == s.c_str() + p) return fail("unexpected character");
      v.type = Value::NUM;
      p = end - s.c_str();
      return true;
    }
  }
};

inline bool parse(const std::string& text, Value& out, std::string& err) {
  Parser ps{text, 0, ""};
  if (!ps.parse_value(out)) {
    err = ps.err;
    return false;
  }
  return true;
}

} // namespace jsonmin
