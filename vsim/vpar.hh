// vpar: cooperative task scheduler for sim-par (C16). Tasks are ucontext fibers on one OS thread;
// which task runs next is decided at every scheduling point by vsim::choose(), so an interleaving
// is part of the run's tape. Compiled WITHOUT sanitizers (so neither ASan nor TSan reports on the
// scheduler or the recorder); talks to the sanitizer runtimes through weak symbols:
//   ASan: __sanitizer_start/finish_switch_fiber, __asan_unpoison_memory_region
//   TSan: __tsan_create_fiber / __tsan_switch_to_fiber(no_sync) / __tsan_destroy_fiber,
//         __tsan_release/__tsan_acquire for the happens-before edges of thread creation and join
#pragma once

#include <stddef.h>
#include <stdint.h>

#include <functional>
#include <vector>

namespace vpar {

enum Strategy { FIRST = 0, UNIFORM = 1, PCT = 2, STARVE = 3, ROUND_ROBIN = 4 };

struct Config {
  int strategy = FIRST;
  int pct_depth = 1; // number of priority change points
  int starve_victim = 1; // task id that is starved (STARVE)
  int quantum = 1; // ROUND_ROBIN: steps before moving on
  uint32_t wake_early_den = 0; // 1/den chance per decision to fire the earliest timer early
  uint64_t step_budget = 20000;
};

void reset(const Config& cfg); // start of every run (abandons leftovers of a previous run)

int spawn(std::function<void()> fn); // new task; the creator reaches a scheduling point
void join(int id); // block the current task until `id` has finished
bool is_finished(int id);
void drain(int id); // non-throwing; enters abort mode and runs task `id` (or all, id < 0) to its end
void yield_point(const char* op, uint64_t arg = 0); // scheduling point before a shared-memory operation
void sleep_us(uint64_t us);
// block until wake_all(addr) (or until timeout_us of simulated time have passed; UINT64_MAX = no limit)
void wait_on(const void* addr, uint64_t timeout_us);
void wake_all(const void* addr);
uint64_t now_us();
int current();
int task_count();

// Run abort: after this, every scheduling point in every task throws vsim::AbortRun so stacks
// unwind normally; used when a violation was found or the step budget is exhausted.
void abort_run();
bool aborting();
bool budget_exhausted();
bool deadlocked();

// ---- recorder (lives here so it is never instrumented)
struct Call {
  uint64_t value; // bit pattern of the IntT value, sign-extended for signed types
  uint64_t thread_num;
  int task;
  bool returned_true;
};
void rec_call(uint64_t value, uint64_t thread_num, bool returned_true);
const std::vector<Call>& calls();
void rec_progress(uint64_t current_value);
uint64_t progress_calls();

// reach statistics of the finished run
struct Stats {
  uint64_t steps = 0, switches = 0, max_concurrent_in_callback = 0, timers_fired_early = 0;
  uint64_t main_progress_iterations = 0;
  uint64_t schedule_hash = 0; // sequence of (task, op)
};
const Stats& stats();
void callback_enter();
void callback_exit();

} // namespace vpar
