// vsim: common runtime for the deterministic-simulation checks (DESIGN.md §3).
//
// One run is a pure function of (tape, code). Engines obtain every decision through
// choose(); they report what happened through ev() (hashed event log), fault()/probe()
// (reach counters) and fail() (violations). The driver (driver_main) owns seeds, worker
// processes, the determinism gate, shrinking, replay files, known findings and evidence.
//
// This translation unit is compiled WITHOUT sanitizers and linked into every engine build
// (asan/ubsan/tsan), so the runtime never reports on itself.
#pragma once

#include <stddef.h>
#include <stdint.h>

#include <functional>
#include <string>
#include <vector>

namespace vsim {

// ---------------------------------------------------------------- choices

// Returns a value in [0,n). n==0 or n==1 returns 0 without consuming tape.
// Convention: 0 is always the simplest choice (no fault, smallest size, first task).
uint32_t choose(uint32_t n, const char* site);

// True with probability num/den in generate mode; tape value 0 => false.
bool chance(uint32_t num, uint32_t den, const char* site);

// Picks one of the given values; index 0 is the simplest.
uint64_t pick(std::initializer_list<uint64_t> values, const char* site);

// A size in [lo,hi], log-biased towards lo. Tape value 0 => lo.
uint64_t choose_range(uint64_t lo, uint64_t hi, const char* site);

// ---------------------------------------------------------------- event log

// Appends an event to the run's log and folds it into the run hash. `kind` must be a string
// literal (its pointer is stored; its characters are hashed).
void ev(const char* kind, uint64_t a = 0, uint64_t b = 0, uint64_t c = 0);

// Free-text description for humans; kept only in verbose mode; never hashed.
void note(const std::string& text);
bool verbose();

// Folds extra data into the run hash without logging an event (e.g. returned payloads).
void hash_bytes(const void* data, size_t size);
void hash_u64(uint64_t v);

// ---------------------------------------------------------------- reach

void fault(const char* kind); // a fault of this kind actually fired
void probe(const char* name); // a rare/interesting condition was reached
void count(const char* name, uint64_t delta = 1);
void mark_nontrivial();
// This run contains a part whose timing is the operating system's, not the tape's (e.g. a second caller running a
// real call while the simulated one is parked). Such a run never decides a verdict on its own if it does not
// reproduce identically.
void mark_os_timing(); // this run counts towards distinct_nontrivial
void add_sim_time_us(uint64_t us);

// Use these so the counter names are literals with the right namespace.
#define VS_FAULT(k) ::vsim::fault("fault:" k)
#define VS_PROBE(k) ::vsim::probe("probe:" k)

// Label of what the code under test is doing right now; copied into the crash report if the
// process dies (used as the violation key for sanitizer/signal deaths).
void set_context(const std::string& ctx);
// errno as the library finds it on entry (set at every set_context with a non-empty label); -1 = leave it alone
void set_entry_errno(int e);

// ---------------------------------------------------------------- allocation accounting support
// Engines that balance malloc/free of the code under test (leak oracle) ignore allocations made
// while this depth is non-zero. All vsim and vfs entry points raise it for their own duration.
extern int g_harness_depth;
// Under ThreadSanitizer the runtime's own memory traffic (memcpy/memmove reach TSan through libc
// interceptors even from uninstrumented code) is excluded with the ignore annotations; no-ops elsewhere.
void tsan_ignore_begin();
void tsan_ignore_end();
struct Quiet {
  Quiet() {
    g_harness_depth++;
    tsan_ignore_begin();
  }
  ~Quiet() {
    tsan_ignore_end();
    g_harness_depth--;
  }
};

// ---------------------------------------------------------------- verdicts

struct Violation {
  std::string cls; // oracle id, e.g. "read_all_fd/truncated"
  std::string key; // specific scenario shape, for known-findings matching
  std::string msg;
};

// Records a violation (first one of the run wins) and unwinds the run.
[[noreturn]] void fail(const std::string& cls, const std::string& key, const std::string& msg);
// Records a violation and continues (for oracles evaluated after the fact).
void fail_soft(const std::string& cls, const std::string& key, const std::string& msg);
bool failed();

// Thrown by fail(); engines must let it propagate out of their run function. It does not derive
// from std::exception so that `catch (const std::exception&)` in code under test cannot eat it.
struct AbortRun {};

// Harness-internal inconsistency: never a property violation. Exits the process with code 2
// after printing the message.
[[noreturn]] void harness_bug(const std::string& msg);

// ---------------------------------------------------------------- engine

struct Engine {
  const char* property; // "C14"
  const char* name; // "sim-fs"
  std::function<void()> process_init; // once per process, before any run
  std::function<void()> run; // one simulated run
  uint64_t quick_runs = 1000;
  uint64_t thorough_runs = 10000;
  double quick_cap_s = 60; // wall-clock safety caps (budgets are in runs)
  double thorough_cap_s = 900;
  unsigned max_workers = 16;
  unsigned watchdog_s = 30; // wall-clock limit for 32 consecutive runs of a worker (hang detection)
  const char* rule = "";
  std::vector<std::string> assumptions;
  // component -> "real" / "stub: ..." description, emitted into evidence
  std::vector<std::pair<std::string, std::string>> components;
  const char* technique = "deterministic simulation with fault injection";
  // extra environment-derived configuration echoed into evidence
  std::function<std::string()> extra_evidence_json; // returns `"k": v, ...` or ""
  // reach counters that must not stay at zero (a zero is printed as a warning)
  std::vector<std::string> expected_probes;
  std::vector<std::string> expected_faults;
};

int driver_main(int argc, char** argv, const Engine& e);

// Current run identity (for engines that need it, e.g. to name temp objects)
uint64_t run_index();
bool replaying();
const char* tier(); // "quick" | "thorough"

// splitmix-style hash helpers
uint64_t mix64(uint64_t x);

} // namespace vsim
