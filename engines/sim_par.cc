// sim-par: C16 — parallel_range / parallel_range_blocks / parallel_range_blocks_multi from the
// UNMODIFIED Tools.hh, instantiated against scheduler-controlled shims of std::atomic, std::thread,
// usleep and now(). Every atomic operation, thread start, join, sleep and callback entry is a
// scheduling point at which the seeded scheduler (vsim/vpar.cc) decides which task runs next.
//
// The same file is built twice: with ASan+UBSan (search over interleavings, oracles over the callback
// log) and with TSan using its fiber API with no-sync switches (data races: accesses ordered only by
// the scheduler are reported).
#include <stdint.h>
#include <stdio.h>
#include <unistd.h>

#include <atomic>
#include <barrier>
#include <chrono>
#include <condition_variable>
#include <future>
#include <latch>
#include <mutex>
#include <semaphore>
#include <shared_mutex>
#include <stop_token>
#include <functional>
#include <limits>
#include <map>
#include <memory>
#include <set>
#include <stdexcept>
#include <string>
#include <thread>
#include <tuple>
#include <unordered_set>
#include <vector>

// phosg headers Tools.hh depends on, included BEFORE the retargeting macros so that only Tools.hh's
// own uses of atomic/thread/usleep/now are redirected
#include "Encoding.hh"
#include "Strings.hh"
#include "Time.hh"

#include "vpar.hh"
#include "vsim.hh"

// ------------------------------------------------------------------ shims

namespace vshim {

template <typename T>
class Atomic {
public:
  Atomic() noexcept = default;
  constexpr Atomic(T v) noexcept : v(v) {}
  Atomic(const Atomic&) = delete;
  Atomic& operator=(const Atomic&) = delete;

  T load(std::memory_order o = std::memory_order_seq_cst) const noexcept(false) {
    vpar::yield_point("load");
    return v.load(o);
  }
  void store(T x, std::memory_order o = std::memory_order_seq_cst) noexcept(false) {
    vpar::yield_point("store", (uint64_t)x);
    v.store(x, o);
  }
  T exchange(T x, std::memory_order o = std::memory_order_seq_cst) noexcept(false) {
    vpar::yield_point("exchange", (uint64_t)x);
    return v.exchange(x, o);
  }
  T fetch_add(T x, std::memory_order o = std::memory_order_seq_cst) noexcept(false) {
    vpar::yield_point("fetch_add", (uint64_t)x);
    return v.fetch_add(x, o);
  }
  T fetch_sub(T x, std::memory_order o = std::memory_order_seq_cst) noexcept(false) {
    vpar::yield_point("fetch_sub", (uint64_t)x);
    return v.fetch_sub(x, o);
  }
  T fetch_and(T x, std::memory_order o = std::memory_order_seq_cst) noexcept(false) {
    vpar::yield_point("fetch_and", (uint64_t)x);
    return v.fetch_and(x, o);
  }
  T fetch_or(T x, std::memory_order o = std::memory_order_seq_cst) noexcept(false) {
    vpar::yield_point("fetch_or", (uint64_t)x);
    return v.fetch_or(x, o);
  }
  T fetch_xor(T x, std::memory_order o = std::memory_order_seq_cst) noexcept(false) {
    vpar::yield_point("fetch_xor", (uint64_t)x);
    return v.fetch_xor(x, o);
  }
  bool compare_exchange_strong(T& expected, T desired, std::memory_order o = std::memory_order_seq_cst) noexcept(false) {
    vpar::yield_point("cas", (uint64_t)desired);
    return v.compare_exchange_strong(expected, desired, o);
  }
  bool compare_exchange_strong(T& expected, T desired, std::memory_order s, std::memory_order f) noexcept(false) {
    vpar::yield_point("cas", (uint64_t)desired);
    return v.compare_exchange_strong(expected, desired, s, f);
  }
  bool compare_exchange_weak(T& expected, T desired, std::memory_order o = std::memory_order_seq_cst) noexcept(false) {
    vpar::yield_point("cas_weak", (uint64_t)desired);
    // a weak CAS may fail spuriously: a scheduler decision
    if (vsim::chance(1, 8, "cas_weak.spurious")) {
      VS_FAULT("spurious_cas_failure");
      expected = v.load(o);
      return false;
    }
    return v.compare_exchange_strong(expected, desired, o);
  }
  bool compare_exchange_weak(T& expected, T desired, std::memory_order s, std::memory_order) noexcept(false) { return compare_exchange_weak(expected, desired, s); }
  operator T() const noexcept(false) { return load(); }
  T operator=(T x) noexcept(false) {
    store(x);
    return x;
  }
  T operator++() noexcept(false) { return fetch_add(1) + 1; }
  T operator++(int) noexcept(false) { return fetch_add(1); }
  T operator--() noexcept(false) { return fetch_sub(1) - 1; }
  T operator--(int) noexcept(false) { return fetch_sub(1); }
  T operator+=(T x) noexcept(false) { return fetch_add(x) + x; }
  T operator-=(T x) noexcept(false) { return fetch_sub(x) - x; }
  bool is_lock_free() const noexcept { return true; }

private:
  mutable std::atomic<T> v; // the real thing underneath: TSan sees the code's own synchronisation
};

struct RunFlags {
  bool joinable_destroyed = false;
  int threads_created = 0;
  int threads_joined = 0;
  unsigned hardware_concurrency = 3; // what std::thread::hardware_concurrency() reports in this run
  bool first_spawn_fails = false; // the system cannot create a thread (EAGAIN: RLIMIT_NPROC, no memory for a stack)
  bool spawn_failed = false;
};
extern RunFlags g_flags;

class Thread {
public:
  Thread() noexcept = default;
  template <typename F, typename... A, typename = std::enable_if_t<!std::is_base_of_v<Thread, std::decay_t<F>>>>
  explicit Thread(F&& f, A&&... a) {
    // std::thread semantics: decay-copy the callable and its arguments, invoke them on the new thread
    if (g_flags.first_spawn_fails && g_flags.threads_created == 0 && !g_flags.spawn_failed) {
      g_flags.spawn_failed = true;
      VS_FAULT("thread_creation_fails");
      throw std::system_error(std::make_error_code(std::errc::resource_unavailable_try_again));
    }
    auto pack = std::make_shared<std::tuple<std::decay_t<F>, std::decay_t<A>...>>(std::forward<F>(f), std::forward<A>(a)...);
    g_flags.threads_created++;
    id = vpar::spawn([pack]() { std::apply([](auto&& fn, auto&&... args) { std::invoke(std::move(fn), std::move(args)...); }, std::move(*pack)); });
  }
  Thread(const Thread&) = delete;
  Thread& operator=(const Thread&) = delete;
  Thread(Thread&& o) noexcept : id(o.id) { o.id = -1; }
  Thread& operator=(Thread&& o) noexcept {
    if (joinable()) destroyed_joinable();
    id = o.id;
    o.id = -1;
    return *this;
  }
  ~Thread() {
    if (joinable()) destroyed_joinable();
  }
  bool joinable() const noexcept { return id >= 0; }
  void join() {
    if (id < 0) throw std::system_error(std::make_error_code(std::errc::invalid_argument));
    vpar::join(id);
    g_flags.threads_joined++;
    id = -1;
  }
  void detach() { id = -1; }
  static unsigned hardware_concurrency() noexcept { return g_flags.hardware_concurrency; }

protected:
  void destroyed_joinable() {
    // std::terminate in a real program; here: record it (unless the run is being aborted) and make
    // sure the task is gone before its captured references die
    if (!vpar::aborting()) g_flags.joinable_destroyed = true;
    vpar::drain(id);
    id = -1;
  }
  int id = -1;
};

// std::jthread: joins in its destructor (the stop token is not modelled: request_stop() has no effect, which is
// what a callable that does not take a token sees)
class JThread : public Thread {
public:
  JThread() noexcept = default;
  template <typename F, typename... A, typename = std::enable_if_t<!std::is_same_v<std::decay_t<F>, JThread>>>
  explicit JThread(F&& f, A&&... a) : Thread(std::forward<F>(f), std::forward<A>(a)...) {}
  JThread(JThread&& o) noexcept : Thread(static_cast<Thread&&>(o)) {}
  JThread& operator=(JThread&& o) noexcept(false) {
    join_if_needed();
    Thread::operator=(static_cast<Thread&&>(o));
    return *this;
  }
  ~JThread() noexcept(false) { join_if_needed(); }
  bool request_stop() noexcept { return false; }

private:
  void join_if_needed() {
    if (!joinable()) return;
    if (vpar::aborting()) {
      destroyed_joinable_quietly();
      return;
    }
    try {
      join();
    } catch (const vsim::AbortRun&) {
      destroyed_joinable_quietly(); // the run is being unwound: make sure the task is gone, do not throw from here
    }
  }
  void destroyed_joinable_quietly() {
    vpar::drain(id);
    id = -1;
  }
};

extern "C" {
void __tsan_acquire(void*) __attribute__((weak));
void __tsan_release(void*) __attribute__((weak));
}

// std::mutex for cooperative tasks: lock() is a scheduling point and waits (blocked, not spinning) while
// another task holds the lock. The TSan build sees the usual release/acquire edge.
class Mutex {
public:
  Mutex() noexcept = default;
  Mutex(const Mutex&) = delete;
  Mutex& operator=(const Mutex&) = delete;
  void lock() {
    vpar::yield_point("mutex.lock");
    while (locked) vpar::wait_on(this, UINT64_MAX);
    locked = true;
    if (__tsan_acquire) __tsan_acquire(this);
  }
  bool try_lock() {
    vpar::yield_point("mutex.try_lock");
    if (locked) return false;
    locked = true;
    if (__tsan_acquire) __tsan_acquire(this);
    return true;
  }
  void unlock() {
    if (__tsan_release) __tsan_release(this);
    locked = false;
    vpar::wake_all(this);
    if (!vpar::aborting()) vpar::yield_point("mutex.unlock");
  }

private:
  std::atomic<bool> locked{false}; // (an atomic so that the TSan build does not report the shim's own flag)
};

// std::condition_variable over that mutex. Waits are in simulated time; a wait may also end spuriously (the
// scheduler's early timer), as the standard allows.
class CondVar {
public:
  CondVar() noexcept = default;
  CondVar(const CondVar&) = delete;
  void notify_one() { notify_all(); } // waking more waiters than asked is a legal (spurious) wake-up
  void notify_all() {
    vpar::yield_point("cv.notify");
    gen++;
    vpar::wake_all(this);
  }
  template <typename L>
  void wait(L& lk) {
    (void)wait_us(lk, UINT64_MAX);
  }
  template <typename L, typename P>
  void wait(L& lk, P pred) {
    while (!pred()) wait(lk);
  }
  template <typename L, typename Rep, typename Per>
  std::cv_status wait_for(L& lk, const std::chrono::duration<Rep, Per>& d) {
    return wait_us(lk, us_of(d)) ? std::cv_status::no_timeout : std::cv_status::timeout;
  }
  template <typename L, typename Rep, typename Per, typename P>
  bool wait_for(L& lk, const std::chrono::duration<Rep, Per>& d, P pred) {
    uint64_t deadline = vpar::now_us() + us_of(d);
    while (!pred()) {
      uint64_t now = vpar::now_us();
      if (now >= deadline) return pred();
      (void)wait_us(lk, deadline - now);
    }
    return true;
  }
  template <typename L, typename C, typename D>
  std::cv_status wait_until(L& lk, const std::chrono::time_point<C, D>& tp) {
    return wait_for(lk, tp - C::now());
  }
  template <typename L, typename C, typename D, typename P>
  bool wait_until(L& lk, const std::chrono::time_point<C, D>& tp, P pred) {
    return wait_for(lk, tp - C::now(), pred);
  }

private:
  template <typename Rep, typename Per>
  static uint64_t us_of(const std::chrono::duration<Rep, Per>& d) {
    auto us = std::chrono::duration_cast<std::chrono::microseconds>(d).count();
    return us <= 0 ? 0 : (uint64_t)us;
  }
  // true = notified (or spurious), false = time limit reached without a notification
  template <typename L>
  bool wait_us(L& lk, uint64_t limit) {
    uint64_t g0 = gen;
    uint64_t deadline = limit == UINT64_MAX ? UINT64_MAX : vpar::now_us() + limit;
    lk.unlock();
    if (gen == g0) vpar::wait_on(this, limit);
    bool notified = gen != g0 || (deadline != UINT64_MAX && vpar::now_us() < deadline);
    lk.lock();
    return notified;
  }
  std::atomic<uint64_t> gen{0};
};

// std::counting_semaphore / std::binary_semaphore and std::latch for cooperative tasks (same scheme as Mutex and
// CondVar: blocking in the scheduler, simulated time for the timed forms, TSan release/acquire edges)
template <std::ptrdiff_t Least = 0x7FFFFFFF>
class Semaphore {
public:
  explicit Semaphore(std::ptrdiff_t desired) : count(desired) {}
  Semaphore(const Semaphore&) = delete;
  static constexpr std::ptrdiff_t max() noexcept { return Least; }
  void release(std::ptrdiff_t n = 1) {
    vpar::yield_point("semaphore.release");
    if (__tsan_release) __tsan_release(this);
    count += n;
    vpar::wake_all(this);
  }
  void acquire() {
    vpar::yield_point("semaphore.acquire");
    while (count <= 0) vpar::wait_on(this, UINT64_MAX);
    take();
  }
  bool try_acquire() noexcept(false) {
    vpar::yield_point("semaphore.try_acquire");
    if (count <= 0) return false;
    take();
    return true;
  }
  template <typename Rep, typename Per>
  bool try_acquire_for(const std::chrono::duration<Rep, Per>& d) {
    vpar::yield_point("semaphore.try_acquire_for");
    auto us = std::chrono::duration_cast<std::chrono::microseconds>(d).count();
    uint64_t deadline = vpar::now_us() + (us <= 0 ? 0 : (uint64_t)us);
    while (count <= 0) {
      uint64_t now = vpar::now_us();
      if (now >= deadline) return false;
      vpar::wait_on(this, deadline - now);
    }
    take();
    return true;
  }
  template <typename C, typename D>
  bool try_acquire_until(const std::chrono::time_point<C, D>& tp) {
    return try_acquire_for(tp - C::now());
  }

private:
  void take() {
    count -= 1;
    if (__tsan_acquire) __tsan_acquire(this);
  }
  std::atomic<std::ptrdiff_t> count;
};

class Latch {
public:
  explicit Latch(std::ptrdiff_t expected) : count(expected) {}
  Latch(const Latch&) = delete;
  void count_down(std::ptrdiff_t n = 1) {
    vpar::yield_point("latch.count_down");
    if (__tsan_release) __tsan_release(this);
    count -= n;
    if (count <= 0) vpar::wake_all(this);
  }
  bool try_wait() const noexcept(false) {
    vpar::yield_point("latch.try_wait");
    return count <= 0;
  }
  void wait() const {
    vpar::yield_point("latch.wait");
    while (count > 0) vpar::wait_on(this, UINT64_MAX);
    if (__tsan_acquire) __tsan_acquire(const_cast<Latch*>(this));
  }
  void arrive_and_wait(std::ptrdiff_t n = 1) {
    count_down(n);
    wait();
  }

private:
  std::atomic<std::ptrdiff_t> count;
};

// std::this_thread inside Tools.hh: sleeping is simulated time, yield() a scheduling point
namespace this_thread_shim {
template <typename Rep, typename Per>
inline void sleep_for(const std::chrono::duration<Rep, Per>& d) {
  auto us = std::chrono::duration_cast<std::chrono::microseconds>(d).count();
  vpar::sleep_us(us <= 0 ? 0 : (uint64_t)us);
}
template <typename C, typename D>
inline void sleep_until(const std::chrono::time_point<C, D>& tp) {
  sleep_for(tp - C::now());
}
inline void yield() { vpar::yield_point("this_thread.yield"); }
inline std::thread::id get_id() { return std::this_thread::get_id(); }
} // namespace this_thread_shim

inline int vs_usleep(uint64_t us) {
  vpar::sleep_us(us);
  return 0;
}
inline uint64_t vs_now() { return vpar::now_us(); }

RunFlags g_flags;

} // namespace vshim

namespace std {
template <typename T>
using vsim_atomic = ::vshim::Atomic<T>;
using vsim_thread = ::vshim::Thread;
using vsim_jthread = ::vshim::JThread;
using vsim_mutex = ::vshim::Mutex;
using vsim_condition_variable = ::vshim::CondVar;
template <std::ptrdiff_t Least = 0x7FFFFFFF>
using vsim_counting_semaphore = ::vshim::Semaphore<Least>;
using vsim_binary_semaphore = ::vshim::Semaphore<1>;
using vsim_latch = ::vshim::Latch;
namespace vsim_this_thread = ::vshim::this_thread_shim;
} // namespace std
namespace phosg {
inline uint64_t vsim_now() { return ::vshim::vs_now(); }
} // namespace phosg
inline int vsim_usleep(uint64_t us) { return ::vshim::vs_usleep(us); }

#define atomic vsim_atomic
#define thread vsim_thread
#define jthread vsim_jthread
#define mutex vsim_mutex
#define condition_variable vsim_condition_variable
#define counting_semaphore vsim_counting_semaphore
#define binary_semaphore vsim_binary_semaphore
#define latch vsim_latch
#define this_thread vsim_this_thread
#define usleep vsim_usleep
#define now vsim_now
#include "Tools.hh"
#undef atomic
#undef thread
#undef jthread
#undef mutex
#undef condition_variable
#undef counting_semaphore
#undef binary_semaphore
#undef latch
#undef this_thread
#undef usleep
#undef now

using namespace vsim;
using std::string;

// ------------------------------------------------------------------ one configuration, one run

namespace {

struct RunCfg {
  int func; // 0 parallel_range, 1 parallel_range_blocks, 2 parallel_range_blocks_multi
  int len;
  int block;
  bool block_divides;
  int threads; // as passed (0 = hardware_concurrency -> 3)
  int eff_threads;
  uint32_t true_mask;
  std::vector<int> true_extra; // additional true positions for ranges longer than 32 (thorough tier)
  int progress; // 0 nullptr, 1 recorder, 2 default argument
  int cb_yields;
  bool first_spawn_fails = false;
  int start_override = -1; // >= 0: start_value (used for ranges that span more than half of a narrow type)
  int inverted_by = 0; // > 0: start_value = end_value + inverted_by (an empty range given "backwards")
  bool threads_unknown = false; // num_threads == 0 and hardware_concurrency() == 0: the call may refuse (logic_error) or pick a count itself
  int offset_kind; // 0: 0, 1: 1, 2: 100, 3: near the type's maximum
  int slack; // distance of end_value from the type's maximum (offset_kind 3)
};

template <typename IntT>
uint64_t bits(IntT v) {
  return (uint64_t)(int64_t)v;
}

template <typename IntT>
void run_typed(const RunCfg& c, const char* type_name) {
  using Lim = std::numeric_limits<IntT>;
  IntT start;
  switch (c.offset_kind) {
    case 0: start = 0; break;
    case 1: start = 1; break;
    case 2: start = 100; break;
    case 3: start = (IntT)(Lim::max() - (IntT)c.slack - (IntT)c.len); break;
    default:
      // signed types: a range that ends at -1, 0 or +1 (negative start, zero inside or at the edge)
      if (std::is_signed_v<IntT>) start = (IntT)((IntT)(c.slack % 3) - 1 - (IntT)c.len);
      else start = 0;
      break;
  }
  if (c.start_override >= 0) {
    start = (IntT)c.start_override;
    VS_PROBE("range_wider_than_half_the_type");
  }
  if (c.offset_kind == 4 && std::is_signed_v<IntT> && c.len > 0) VS_PROBE("negative_start_value");
  IntT end = (IntT)(start + (IntT)c.len);
  if (c.inverted_by) {
    // start_value above end_value: [start,end) holds no value at all (c.len is 0 in these runs)
    end = start;
    start = (IntT)(start + (IntT)c.inverted_by);
    VS_PROBE("inverted_empty_range");
  }
  // does the cursor wrap? each worker overshoots end_value by at most one claim
  uint64_t headroom = (uint64_t)Lim::max() - (uint64_t)end;
  uint64_t step = c.func == 0 ? 1 : (uint64_t)c.block;
  bool wraps = headroom < (uint64_t)c.eff_threads * step;
  int progress = c.progress;
  string cfg_key = string(c.func == 0 ? "range" : (c.func == 1 ? "blocks" : "multi"));

  std::set<uint64_t> true_set;
  for (int i = 0; i < c.len && i < 32; i++)
    if (c.true_mask & (1u << i)) true_set.insert(bits<IntT>((IntT)(start + (IntT)i)));
  for (int i : c.true_extra) true_set.insert(bits<IntT>((IntT)(start + (IntT)i)));

  std::function<bool(IntT, size_t)> cb = [&](IntT v, size_t thread_num) -> bool {
    vpar::callback_enter();
    vpar::yield_point("callback");
    for (int i = 0; i < c.cb_yields; i++) vpar::yield_point("callback.work");
    bool ret = true_set.count(bits<IntT>(v)) != 0;
    vpar::rec_call(bits<IntT>(v), thread_num, ret);
    vpar::callback_exit();
    return ret;
  };
  std::function<void(IntT, IntT, IntT, uint64_t)> progress_rec = [&](IntT s, IntT e, IntT cur, uint64_t) {
    vpar::rec_progress(bits<IntT>(cur));
    if (s != start || e != end) fail_soft("progress/wrong_arguments", cfg_key, "progress function called with a different range than the call's");
  };

  std::function<void(IntT, IntT, IntT, uint64_t)> pf = nullptr;
  if (progress == 1) pf = progress_rec;
  bool threw_logic = false, threw_system = false;
  string what;
  IntT ret = 0;
  std::unordered_set<IntT> ret_set;
  set_context(cfg_key + (progress == 2 ? "/default_progress" : ""));
  try {
    if (c.func == 0) {
      if (progress == 2) ret = phosg::parallel_range<IntT>(cb, start, end, c.threads);
      else ret = phosg::parallel_range<IntT>(cb, start, end, c.threads, pf);
    } else if (c.func == 1) {
      if (progress == 2) ret = phosg::parallel_range_blocks<IntT>(cb, start, end, (IntT)c.block, c.threads);
      else ret = phosg::parallel_range_blocks<IntT>(cb, start, end, (IntT)c.block, c.threads, pf);
    } else {
      if (progress == 2) ret_set = phosg::parallel_range_blocks_multi<IntT>(cb, start, end, (IntT)c.block, c.threads);
      else ret_set = phosg::parallel_range_blocks_multi<IntT>(cb, start, end, (IntT)c.block, c.threads, pf);
    }
  } catch (const std::logic_error& e) {
    threw_logic = true;
    what = e.what();
  } catch (const std::system_error& e) {
    threw_system = true;
    what = e.what();
  } catch (const AbortRun&) {
    vpar::drain(-1);
    // the scheduler ends a run that exceeds its step budget (or in which nobody can move) by unwinding the
    // tasks with AbortRun: that is the verdict "the call never returns", not an abandoned run
    if (!failed() && (vpar::budget_exhausted() || vpar::deadlocked())) {
      string k = string(c.func == 0 ? "range" : (c.func == 1 ? "blocks" : "multi")) + (progress == 2 ? "/default_progress" : (progress == 1 ? "/progress_fn" : ""));
      const char* cls = vpar::deadlocked() ? "deadlock" : "no_termination";
      string msg = vpar::deadlocked() ? "no task can make a step and no timer is pending" : "the call did not finish within the step budget of the scheduler (it keeps running although every worker has stopped or all values are done)";
      fail_soft(cls, wraps ? k + "/end_value_near_type_max" : k, msg);
    }
    throw;
  }
  set_context("");
  if (threw_system) {
    // the caller was told: nothing is claimed about the values, but nothing may be left running
    if (!vshim::g_flags.spawn_failed) fail("unexpected_system_error", cfg_key, "the call threw system_error('" + what + "') although every thread could be created");
    for (int id = 1; id < vpar::task_count(); id++)
      if (!vpar::is_finished(id)) fail("threads/running_after_return", cfg_key, "the call threw because a thread could not be created and left worker thread " + std::to_string(id) + " running");
    VS_PROBE("thread_creation_failure_reported");
    return;
  }

  // ---- oracles over the recorded history
  // Configurations whose end_value lies within num_threads*block_size of the type's maximum make the
  // shared cursor wrap around (every worker overshoots end_value by one claim). Everything that goes
  // wrong in such a run is reported as ONE class, so that the recorded known finding covers exactly this
  // situation and nothing else.
  // (`wraps`: end_value lies within num_threads*block_size of the type's maximum. With the original claim protocol
  // - an unconditional fetch_add - the cursor wrapped around in these configurations; repaired in /repo, see
  // known_findings.json. They are ordinary configurations now; the key says so to make a regression recognisable.)
  auto vfail = [&](const string& cls, const string& key, const string& msg) {
    fail(cls, wraps ? key + "/end_value_near_type_max" : key, msg + (wraps ? " (end_value is within num_threads*block_size of " + string(type_name) + "'s maximum)" : ""));
  };
  const auto& calls = vpar::calls();
  const auto& st = vpar::stats();
  hash_u64(st.schedule_hash);
  if (vpar::deadlocked()) vfail("deadlock", cfg_key, "no task can make a step and no timer is pending");
  if (vpar::budget_exhausted()) vfail("no_termination", cfg_key, "the call did not finish within the step budget of the scheduler");
  if (failed()) throw AbortRun();

  if (c.inverted_by) {
    // an empty range: nothing may be visited. The blocks variants may also refuse it (end - start is not a
    // multiple of the block size in unsigned arithmetic); parallel_range has no reason to.
    if (!calls.empty()) {
      fail("callback/outside_range", cfg_key + "/inverted_range", "start_value (" + std::to_string((int64_t)bits<IntT>(start)) + ") is above end_value (" + std::to_string((int64_t)bits<IntT>(end)) + "), the range is empty, but the callback was invoked " + std::to_string(calls.size()) + " time(s), first with " + std::to_string((int64_t)calls[0].value));
    }
    if (threw_logic && c.func == 0 && !c.threads_unknown) fail("unexpected_logic_error", cfg_key + "/inverted_range", "parallel_range threw logic_error('" + what + "') for an empty (inverted) range");
    if (!threw_logic) {
      if (c.func == 2 && !ret_set.empty()) fail("multi/wrong_result_set", cfg_key + "/inverted_range", "parallel_range_blocks_multi returned values for an empty range");
      if (c.func != 2 && ret != end) fail("result/not_end_value", cfg_key + "/inverted_range", "an empty (inverted) range must return end_value, got " + std::to_string((int64_t)bits<IntT>(ret)));
    }
    if (vshim::g_flags.joinable_destroyed) fail("threads/not_joined", cfg_key, "a worker thread was still joinable when its std::thread was destroyed (std::terminate)");
    for (int id = 1; id < vpar::task_count(); id++)
      if (!vpar::is_finished(id)) fail("threads/running_after_return", cfg_key, "the call returned while worker thread " + std::to_string(id) + " was still running");
    return;
  }
  if (!c.block_divides) {
    if (!threw_logic) fail("blocks/non_divisor_accepted", cfg_key, "block_size does not divide the range but no logic_error was thrown");
    if (!calls.empty()) fail("blocks/non_divisor_ran", cfg_key, "callbacks ran although the block size was rejected");
    return;
  }
  if (threw_logic && c.threads_unknown) {
    // refusing to guess a thread count is an answer; it must come before any work was done
    if (!calls.empty()) fail("blocks/non_divisor_ran", cfg_key, "callbacks ran although the call refused its thread count");
    VS_PROBE("hardware_concurrency_unknown_refused");
    return;
  }
  if (threw_logic) fail("unexpected_logic_error", cfg_key, "the call threw logic_error('" + what + "') for a valid configuration");

  if (vshim::g_flags.joinable_destroyed) fail("threads/not_joined", cfg_key, "a worker thread was still joinable when its std::thread was destroyed (std::terminate)");
  for (int id = 1; id < vpar::task_count(); id++)
    if (!vpar::is_finished(id)) fail("threads/running_after_return", cfg_key, "the call returned while worker thread " + std::to_string(id) + " was still running");
  if (vshim::g_flags.threads_joined != vshim::g_flags.threads_created) fail("threads/not_joined", cfg_key, "created " + std::to_string(vshim::g_flags.threads_created) + " threads, joined " + std::to_string(vshim::g_flags.threads_joined));
  // (fewer OS threads than num_threads are fine - a short range does not need them all, and the calling thread may
  // take part as one of the numbered workers; what C16 limits is the thread NUMBERS, checked below)
  if (vshim::g_flags.threads_created > c.eff_threads && !vshim::g_flags.spawn_failed && !c.threads_unknown) fail("threads/wrong_count", cfg_key, "asked for " + std::to_string(c.eff_threads) + " threads, " + std::to_string(vshim::g_flags.threads_created) + " were created");

  std::map<uint64_t, int> seen;
  bool any_true_returned = false;
  for (auto& call : calls) {
    int64_t sv = (int64_t)call.value;
    bool inside = sv >= (int64_t)bits<IntT>(start) && sv < (int64_t)bits<IntT>(end);
    if (std::is_unsigned_v<IntT>) inside = call.value >= bits<IntT>(start) && call.value < bits<IntT>(end);
    if (!inside) {
      vfail("callback/outside_range", cfg_key,
          "callback invoked with " + std::to_string(sv) + " which is outside [" + std::to_string((int64_t)bits<IntT>(start)) + "," + std::to_string((int64_t)bits<IntT>(end)) + ") (" + type_name + ", " +
              std::to_string(c.eff_threads) + " threads" + (wraps ? ", end_value within num_threads*block_size of the type's maximum so the cursor wraps" : "") + ")");
    }
    // (with num_threads == 0 and an unknown hardware concurrency the count is the implementation's own choice: only
    // the identity check below applies)
    if (!c.threads_unknown && call.thread_num >= (uint64_t)c.eff_threads) fail("callback/bad_thread_num", cfg_key, "callback got thread_num " + std::to_string(call.thread_num) + " with " + std::to_string(c.eff_threads) + " threads");
    if (++seen[call.value] > 1) vfail("callback/invoked_twice", cfg_key, "callback invoked twice for value " + std::to_string(sv));
    any_true_returned |= call.returned_true;
  }

  // a thread number identifies its worker: every call made by one worker carries the same number and no
  // two workers share one (per-thread buffers indexed by it - as _multi does - depend on that)
  {
    std::map<int, uint64_t> num_of_task;
    std::map<uint64_t, int> task_of_num;
    for (auto& call : calls) {
      auto it = num_of_task.find(call.task);
      if (it == num_of_task.end()) num_of_task[call.task] = call.thread_num;
      else if (it->second != call.thread_num) fail("callback/thread_num_not_an_identity", cfg_key, "one worker thread was given two different thread numbers (" + std::to_string(it->second) + " and " + std::to_string(call.thread_num) + ")");
      auto jt = task_of_num.find(call.thread_num);
      if (jt == task_of_num.end()) task_of_num[call.thread_num] = call.task;
      else if (jt->second != call.task) fail("callback/thread_num_not_an_identity", cfg_key, "two different worker threads invoked the callback with the same thread number " + std::to_string(call.thread_num));
    }
  }

  bool expect_all = true_set.empty() || c.func == 2;
  if (expect_all) {
    for (int i = 0; i < c.len; i++) {
      uint64_t v = bits<IntT>((IntT)(start + (IntT)i));
      if (!seen.count(v)) vfail("callback/value_skipped", cfg_key, "value " + std::to_string((int64_t)v) + " of the range was never passed to the callback although no callback returned true");
    }
  }
  if (c.func == 2) {
    std::set<uint64_t> got;
    for (auto v : ret_set) got.insert(bits<IntT>(v));
    if (got != true_set || ret_set.size() != true_set.size()) {
      vfail("multi/wrong_result_set", cfg_key, "parallel_range_blocks_multi returned " + std::to_string(ret_set.size()) + " values, expected exactly the " + std::to_string(true_set.size()) + " for which the callback returned true");
    }
  } else if (true_set.empty()) {
    if (ret != end) vfail("result/not_end_value", cfg_key, "no callback returned true but the call returned " + std::to_string((int64_t)bits<IntT>(ret)) + " instead of end_value");
  } else {
    if (!any_true_returned) vfail("result/no_true_seen", cfg_key, "some value should have returned true but the history shows none: the early-exit protocol skipped it");
    bool ok = false;
    for (auto& call : calls) ok |= call.returned_true && call.value == bits<IntT>(ret);
    if (!ok) vfail("result/not_a_true_value", cfg_key, "the call returned " + std::to_string((int64_t)bits<IntT>(ret)) + " but no callback invocation for that value returned true");
  }
  if (c.progress == 1 && vpar::progress_calls()) VS_PROBE("progress_fn_called");

  // reach probes
  if (st.max_concurrent_in_callback >= 2) VS_PROBE("two_workers_in_callback");
  if (st.timers_fired_early) VS_PROBE("progress_timer_fired_while_workers_busy");
  if (!true_set.empty() && c.func != 2 && (int)calls.size() < c.len) VS_PROBE("early_exit_skipped_values");
  if (true_set.size() >= 2 && c.func != 2) {
    int trues = 0;
    for (auto& call : calls) trues += call.returned_true;
    if (trues >= 2) VS_PROBE("two_callbacks_returned_true");
  }
  if (wraps) VS_PROBE("end_value_near_type_max");
  if (c.len > 12) VS_PROBE("long_range_many_threads");
  {
    std::set<int> tasks_used;
    for (auto& call : calls) tasks_used.insert(call.task);
    if (tasks_used.size() >= 2) VS_PROBE("values_split_between_workers");
  }
}

} // namespace

static void run() {
  bool thorough = !strcmp(tier(), "thorough");
  RunCfg c;
  c.func = choose(3, "func");
  int type = choose(6, "type");
  c.len = choose(thorough ? 13 : 7, "len");
  bool large = thorough && choose(16, "large") == 15; // occasionally a long range with many threads
  if (large) c.len = 13 + choose(108, "len.large");
  c.offset_kind = choose(5, "offset");
  // one uint8_t run in twelve covers more than half of the type's value space (end - start does not fit the
  // signed type of the same width)
  if (type == 0 && choose(12, "span.more_than_half") == 11) {
    c.len = 129 + (int)choose(120, "span.len");
    c.start_override = (int)choose(256 - c.len, "span.start");
    c.offset_kind = 0;
    large = false;
  }
  c.slack = choose(9, "slack");
  c.threads = large ? 1 + choose(8, "threads.large") : choose(5, "threads"); // 0..4 (1..8 for long ranges)
  // (0: "not computable", which the standard allows hardware_concurrency() to say)
  unsigned hw = (unsigned)pick({3, 1, 2, 4, 3, 2, 4, 0}, "hardware_concurrency");
  c.eff_threads = c.threads == 0 ? (int)hw : c.threads;
  c.threads_unknown = c.threads == 0 && hw == 0;
  c.block = 1;
  c.block_divides = true;
  if (c.func != 0) {
    std::vector<int> divisors;
    for (int b = 1; b <= std::max(c.len, 1); b++)
      if (c.len % b == 0) divisors.push_back(b);
    if (c.len == 0) divisors = {1, 2, 3};
    if (c.len > 1 && choose(8, "block.bad") == 7) {
      // a block size that does not divide the range must be rejected
      std::vector<int> bad;
      for (int b = 2; b <= c.len + 1; b++)
        if (c.len % b) bad.push_back(b);
      if (!bad.empty()) {
        c.block = bad[choose(bad.size(), "block.bad.which")];
        c.block_divides = false;
      }
    }
    if (c.block_divides) c.block = divisors[choose(divisors.size(), "block")];
  }
  c.true_mask = 0;
  if (c.len > 0 && choose(2, "true.any")) {
    if (c.len <= 12) {
      c.true_mask = 1 + choose((1u << c.len) - 1, "true.mask");
    } else {
      for (unsigned i = 0, n = 1 + choose(3, "true.count"); i < n; i++) c.true_extra.push_back(choose(c.len, "true.pos"));
    }
  }
  c.progress = choose(3, "progress");
  c.cb_yields = choose(3, "cb_yields");
  if (c.len == 0 && c.offset_kind != 3 && c.block_divides && choose(3, "range.inverted") == 2) c.inverted_by = 1 + (int)choose(5, "range.inverted.by");
  // one run in sixteen: the first worker thread cannot be created (later ones are not failed: with the
  // repository's code an exception out of the spawn loop destroys the joinable threads already started, which is
  // std::terminate - a limitation outside what C16 states, see DESIGN.md)
  c.first_spawn_fails = c.block_divides && choose(16, "spawn.fails") == 15;
  // one run in six is not the first call of this instantiation in the process: an earlier call (all callbacks
  // true, two workers) has left whatever the implementation keeps between calls
  bool prelude = choose(6, "prelude") == 5;

  if (prelude) {
    RunCfg p = c;
    p.len = 4;
    p.block = c.func == 0 ? 1 : (int)pick({1, 2}, "prelude.block");
    p.block_divides = true;
    p.threads = p.eff_threads = 2;
    p.true_mask = 0xF;
    p.true_extra.clear();
    p.progress = 0;
    p.cb_yields = 1;
    p.first_spawn_fails = false;
    if (p.offset_kind == 3) p.offset_kind = 2;
    vpar::Config pc;
    pc.strategy = vpar::ROUND_ROBIN;
    pc.quantum = 1;
    pc.step_budget = 30000;
    vshim::g_flags = vshim::RunFlags();
    vpar::reset(pc);
    ev("prelude", c.func, type);
    try {
      switch (type) {
        case 0: run_typed<uint8_t>(p, "uint8_t"); break;
        case 1: run_typed<uint16_t>(p, "uint16_t"); break;
        case 2: run_typed<uint32_t>(p, "uint32_t"); break;
        case 3: run_typed<uint64_t>(p, "uint64_t"); break;
        case 4: run_typed<int32_t>(p, "int32_t"); break;
        default: run_typed<int64_t>(p, "int64_t"); break;
      }
    } catch (...) {
      vpar::drain(-1);
      throw;
    }
    vpar::drain(-1);
    VS_PROBE("second_call_in_process");
  }

  vpar::Config sc;
  sc.strategy = choose(5, "sched.strategy");
  sc.pct_depth = 1 + choose(3, "sched.pct_depth");
  sc.starve_victim = 1 + choose(std::max(c.eff_threads, 1), "sched.victim");
  sc.quantum = 1 + choose(4, "sched.quantum");
  sc.wake_early_den = (uint32_t)pick({0, 16, 4}, "sched.timer_early_rate");
  sc.step_budget = (large || c.start_override >= 0) ? 300000 : 30000;
  vshim::g_flags = vshim::RunFlags();
  vshim::g_flags.hardware_concurrency = hw;
  vshim::g_flags.first_spawn_fails = c.first_spawn_fails;
  vpar::reset(sc);
  if (sc.strategy != vpar::FIRST && c.eff_threads > 1 && c.len > 0) mark_nontrivial();
  static const char* FUNCS[] = {"parallel_range", "parallel_range_blocks", "parallel_range_blocks_multi"};
  static const char* TYPES_N[] = {"uint8_t", "uint16_t", "uint32_t", "uint64_t", "int32_t", "int64_t"};
  static const char* OFFS[] = {"0", "1", "100", "near the type's maximum", "a negative value so that the range ends at -1, 0 or 1 (signed types)"};
  static const char* PROG[] = {"none", "recorder", "default"};
  static const char* STRAT[] = {"run-to-completion", "uniform", "PCT", "starve one task", "round-robin"};
  if (verbose()) {
    note(string(FUNCS[c.func]) + "<" + TYPES_N[type] + "> range of " + std::to_string(c.len) + " values starting at " + OFFS[c.offset_kind] + ", block " + std::to_string(c.block) +
        (c.block_divides ? "" : " (does not divide the range)") + ", num_threads=" + std::to_string(c.threads) + ", true-mask=" + std::to_string(c.true_mask) + ", progress=" + PROG[c.progress] +
        ", schedule strategy=" + STRAT[sc.strategy] + "; events are: <operation> <from-task> <to-task> <argument>");
  }
  ev("cfg", c.func * 100 + type * 10 + c.threads, c.len * 100 + c.block, c.true_mask);
  ev("cfg2", c.offset_kind * 10 + c.slack, c.progress, sc.strategy);

  static const char* TYPES[] = {"uint8_t", "uint16_t", "uint32_t", "uint64_t", "int32_t", "int64_t"};
  try {
    switch (type) {
      case 0: run_typed<uint8_t>(c, TYPES[type]); break;
      case 1: run_typed<uint16_t>(c, TYPES[type]); break;
      case 2: run_typed<uint32_t>(c, TYPES[type]); break;
      case 3: run_typed<uint64_t>(c, TYPES[type]); break;
      case 4: run_typed<int32_t>(c, TYPES[type]); break;
      default: run_typed<int64_t>(c, TYPES[type]); break;
    }
  } catch (...) {
    vpar::drain(-1);
    throw;
  }
  vpar::drain(-1);
  add_sim_time_us(vpar::now_us() - 1000000);
}

int main(int argc, char** argv) {
  Engine e;
  e.property = "C16";
#ifdef VSIM_TSAN_BUILD
  e.name = "sim-par-tsan";
  e.quick_runs = 200000;
  e.thorough_runs = 3000000;
#else
  e.name = "sim-par";
  e.quick_runs = 1000000;
  e.thorough_runs = 12000000;
#endif
  e.run = run;
  e.quick_cap_s = 120;
  e.thorough_cap_s = 900;
  e.rule =
      "one run = one configuration (function of the three, IntT of six, range length 0..6 [thorough 0..12, occasionally 13..120 with up to 8 threads] at offset 0/1/100/near the type's maximum/negative (ending at -1, 0 or 1), block size, "
      "1..4 threads or 0=hardware_concurrency (reported as 1..4, or 0 = not computable), set of values whose callback returns true, progress function nullptr/recorder/default) executed under one seeded "
      "schedule (strategy first/uniform/PCT/starve/round-robin; a scheduling point before every atomic operation, at thread start, join, sleep and inside the "
      "callback; progress timer may fire early); distinct = distinct hash of (configuration, sequence of (operation, from-task, to-task)); non-trivial = more than "
      "one worker, non-empty range and a strategy other than run-to-completion";
  e.assumptions = {
      "sequentially consistent interleavings only: weak-memory reorderings are not modelled (Tools.hh uses default seq_cst operations)",
      "std::thread is replaced by cooperative tasks with std::thread's decay-copy/invoke semantics; std::atomic by a wrapper around the real std::atomic with a scheduling point before each operation",
      "the data-race clause is decided by the second build of the same harness under ThreadSanitizer with fiber switches that carry no synchronisation"};
  e.components = {{"phosg Tools.hh: parallel_range, parallel_range_blocks, parallel_range_blocks_multi, their thread functions and parallel_range_default_progress_fn", "real, unmodified header from the repository working tree (macro retargeting in the harness TU)"},
      {"std::thread, std::atomic, usleep, now()", "stub: scheduler-controlled shims (engines/sim_par.cc, vsim/vpar.cc)"},
      {"callback and progress recorder", "harness"}};
  e.expected_probes = {"two_workers_in_callback", "progress_timer_fired_while_workers_busy", "early_exit_skipped_values", "two_callbacks_returned_true", "end_value_near_type_max", "values_split_between_workers", "progress_fn_called", "negative_start_value", "second_call_in_process", "thread_creation_failure_reported", "hardware_concurrency_unknown_refused", "inverted_empty_range", "range_wider_than_half_the_type"};
  e.expected_faults = {"thread_creation_fails"};
  return driver_main(argc, argv, e);
}
