// sim-image: C06 — phosg's image codecs on a simulated disk.
// Real: Image.cc load()/save_helper()/save(FILE*)/save(Format), Filesystem.cc stream helpers, zlib.
// Stub: the file — a simulated inode behind fopencookie whose durable contents (torn write /
//       truncation), read errors, chunking and write faults are decided by the simulator.
// Oracles: the generator's own pixel array; independent decoders for PNG (own CRC-32, zlib inflate,
//       all five filters), BMP and P6/P7 written here without any phosg code; "throws or decodes
//       identically" under faults; exact malloc/free balance of the code under test (leaks).
#include <errno.h>
#include <sanitizer/allocator_interface.h>
#include <string.h>
#include <zlib.h>

#include <algorithm>
#include <locale>
#include <thread>
#include <string>
#include <vector>

#include "Image.hh"

#include "vfs.hh"
#include "vsim.hh"

using namespace vsim;
using std::string;

// ------------------------------------------------------------------ leak accounting

namespace {

const size_t PSET_CAP = 1 << 14;
const volatile void* g_pset[PSET_CAP];
size_t g_pset_count = 0;
bool g_window = false;

inline size_t phash(const volatile void* p) { return ((uintptr_t)p >> 4) * 0x9E3779B97F4A7C15ULL >> 50; }

void on_malloc(const volatile void* p, size_t) {
  if (!g_window || g_harness_depth || !p) return;
  size_t i = phash(p) & (PSET_CAP - 1);
  for (size_t n = 0; n < PSET_CAP; n++, i = (i + 1) & (PSET_CAP - 1)) {
    if (!g_pset[i] || g_pset[i] == (const volatile void*)1) {
      g_pset[i] = p;
      g_pset_count++;
      return;
    }
  }
}

void on_free(const volatile void* p) {
  if (!g_window || !p || !g_pset_count) return;
  size_t i = phash(p) & (PSET_CAP - 1);
  for (size_t n = 0; n < PSET_CAP; n++, i = (i + 1) & (PSET_CAP - 1)) {
    if (!g_pset[i]) return;
    if (g_pset[i] == p) {
      g_pset[i] = (const volatile void*)1; // tombstone
      g_pset_count--;
      return;
    }
  }
}

void window_open() {
  memset((void*)g_pset, 0, sizeof(g_pset));
  g_pset_count = 0;
  g_window = true;
}

size_t window_close() {
  g_window = false;
  return g_pset_count;
}

// ------------------------------------------------------------------ pictures

struct Px {
  uint64_t r, g, b, a;
};

struct Pic {
  size_t w = 0, h = 0;
  bool alpha = false;
  int cw = 8;
  std::vector<Px> px; // row-major, top row first

  const Px& at(size_t x, size_t y) const { return px[y * w + x]; }
};

uint64_t mask_for(int cw) { return cw == 64 ? ~0ULL : ((1ULL << cw) - 1); }

string pic_diff(const Pic& got, const Pic& want, bool compare_alpha) {
  if (got.w != want.w || got.h != want.h) return "dimensions " + std::to_string(got.w) + "x" + std::to_string(got.h) + " instead of " + std::to_string(want.w) + "x" + std::to_string(want.h);
  if (got.alpha != want.alpha) return string("alpha flag ") + (got.alpha ? "set" : "clear") + " instead of " + (want.alpha ? "set" : "clear");
  if (got.cw != want.cw) return "channel width " + std::to_string(got.cw) + " instead of " + std::to_string(want.cw);
  for (size_t y = 0; y < want.h; y++) {
    for (size_t x = 0; x < want.w; x++) {
      const Px& a = got.at(x, y);
      const Px& b = want.at(x, y);
      if (a.r != b.r || a.g != b.g || a.b != b.b || (compare_alpha && want.alpha && a.a != b.a)) {
        char buf[256];
        snprintf(buf, sizeof(buf), "pixel (%zu,%zu) is (%llx,%llx,%llx,%llx) instead of (%llx,%llx,%llx,%llx)", x, y, (unsigned long long)a.r,
            (unsigned long long)a.g, (unsigned long long)a.b, (unsigned long long)a.a, (unsigned long long)b.r, (unsigned long long)b.g,
            (unsigned long long)b.b, (unsigned long long)b.a);
        return buf;
      }
    }
  }
  return "";
}

Pic gen_pic() {
  Pic p;
  // all residues of width mod 4, biased small; one case in eight sits in the 61..64 corner so that the
  // largest pictures (where buffer-size estimates are tightest) are actually reached
  bool corner = choose(8, "pic.corner") == 7;
  switch (corner ? 2 : choose(4, "pic.w.kind")) {
    case 0: p.w = 1 + choose(8, "pic.w.small"); break;
    case 1: p.w = 1 + choose(64, "pic.w.any"); break;
    case 2: p.w = 61 + choose(4, "pic.w.max"); break;
    default: p.w = 1 + choose(16, "pic.w.mid"); break;
  }
  switch (corner ? 3 : choose(3, "pic.h.kind")) {
    case 3: p.h = 61 + choose(4, "pic.h.max"); break;
    case 0: p.h = 1 + choose(4, "pic.h.small"); break;
    case 1: p.h = 1 + choose(64, "pic.h.any"); break;
    default: p.h = 1 + choose(12, "pic.h.mid"); break;
  }
  p.alpha = choose(2, "pic.alpha");
  p.cw = 8 << choose(4, "pic.cw");
  unsigned gen = choose(6, "pic.gen");
  uint64_t seed = choose(1 << 16, "pic.seed");
  uint64_t m = mask_for(p.cw);
  p.px.resize(p.w * p.h);
  for (size_t y = 0; y < p.h; y++) {
    for (size_t x = 0; x < p.w; x++) {
      Px& q = p.px[y * p.w + x];
      uint64_t i = y * p.w + x;
      switch (gen) {
        case 0: // position-dependent pseudo-random
          q.r = mix64(seed + i * 4 + 0) & m;
          q.g = mix64(seed + i * 4 + 1) & m;
          q.b = mix64(seed + i * 4 + 2) & m;
          q.a = mix64(seed + i * 4 + 3) & m;
          break;
        case 1:
          q = {0, 0, 0, 0};
          break;
        case 2:
          q = {m, m, m, m};
          break;
        case 3: // gradient: every channel distinct, every pixel distinct for small images
          q.r = (x * 3 + 1) & m;
          q.g = (y * 5 + 2) & m;
          q.b = (i * 7 + 3) & m;
          q.a = (255 - i) & m;
          break;
        case 4: // high-bit bytes (sign bugs)
          q.r = (0x8080808080808080ULL | mix64(seed + i)) & m;
          q.g = (0xFF80FF80FF80FF80ULL ^ i) & m;
          q.b = (0x80FF80FF80FF80FFULL ^ (i << 1)) & m;
          q.a = (0xFFFFFFFFFFFFFF80ULL | i) & m;
          break;
        default: // bytes that look like file structure: newlines, spaces, 'P', NUL
          q.r = (uint64_t)"\n P6\0#\r\t"[(i + seed) & 7] * 0x0101010101010101ULL & m; // any of them may come first
          q.g = (uint64_t)"BM\n\n  \xFF\x00"[(i + 1 + seed) & 7] * 0x0101010101010101ULL & m;
          q.b = (0x0A0A0A0A0A0A0A0AULL) & m;
          q.a = (0x2020202020202020ULL) & m;
          break;
      }
    }
  }
  return p;
}

// ------------------------------------------------------------------ independent encoders (foreign files)

void put_sample(string& s, uint64_t v, int cw) {
  // phosg keeps samples wider than 8 bits in host byte order (it writes its own files that way);
  // foreign wide files are generated in the same convention (assumption listed in evidence)
  s.append((const char*)&v, cw / 8);
}

void put_le16(string& s, uint16_t v) { s.append((const char*)&v, 2); }
void put_le32(string& s, uint32_t v) { s.append((const char*)&v, 4); }

struct Encoded {
  string bytes;
  string kind; // e.g. "P5", "P7/GRAYSCALE_ALPHA", "BMP24/hdr40/bottom-up"
  std::vector<size_t> marks; // structure boundaries (offsets)
  Pic expect; // what a correct decoder must produce
  bool compare_alpha = true;
};

const char* ws_choice(const char* site) {
  static const char* WS[] = {"\n", " ", "\t", "\n", " "};
  return WS[choose(3, site)];
}

// A decimal number as some writer might print it: one time in four with leading zeros (still decimal)
string dec_field(uint64_t v, const char* site) {
  string z;
  if (choose(4, site) == 3) z.assign(1 + choose(3, "num.zeros"), '0');
  return z + std::to_string(v);
}

// P5 / P6 (plain header)  — gray: uses q.r as the gray sample
Encoded enc_pnm(const Pic& src, bool gray, uint64_t maxval) {
  Encoded e;
  e.kind = gray ? "P5" : "P6";
  string& s = e.bytes;
  s = gray ? "P5" : "P6";
  e.marks.push_back(1);
  e.marks.push_back(2);
  s += ws_choice("pnm.ws1");
  s += dec_field(src.w, "pnm.w.zeros");
  e.marks.push_back(s.size());
  s += ws_choice("pnm.ws2");
  s += dec_field(src.h, "pnm.h.zeros");
  e.marks.push_back(s.size());
  s += ws_choice("pnm.ws3");
  s += dec_field(maxval, "pnm.maxval.zeros");
  e.marks.push_back(s.size());
  s += ws_choice("pnm.ws4");
  e.marks.push_back(s.size());
  e.expect = src;
  e.expect.alpha = false;
  size_t row_bytes = src.w * (gray ? 1 : 3) * (src.cw / 8);
  for (size_t y = 0; y < src.h; y++) {
    for (size_t x = 0; x < src.w; x++) {
      Px q = src.at(x, y);
      if (gray) q.g = q.b = q.r;
      q.a = maxval;
      put_sample(s, q.r, src.cw);
      if (!gray) {
        put_sample(s, q.g, src.cw);
        put_sample(s, q.b, src.cw);
      }
      e.expect.px[y * src.w + x] = q;
    }
    e.marks.push_back(e.marks[5] + (y + 1) * row_bytes);
  }
  return e;
}

// P7 with any TUPLTYPE; header lines in a drawn order
Encoded enc_pam(const Pic& src, bool gray, bool alpha, uint64_t maxval) {
  Encoded e;
  const char* tt = gray ? (alpha ? "GRAYSCALE_ALPHA" : "GRAYSCALE") : (alpha ? "RGB_ALPHA" : "RGB");
  e.kind = string("P7/") + tt;
  string& s = e.bytes;
  s = "P7\n";
  e.marks.push_back(2);
  e.marks.push_back(3);
  std::vector<string> lines = {"WIDTH " + dec_field(src.w, "pam.w.zeros"), "HEIGHT " + dec_field(src.h, "pam.h.zeros"),
      "DEPTH " + dec_field((gray ? 1 : 3) + (alpha ? 1 : 0), "pam.depth.zeros"), "MAXVAL " + dec_field(maxval, "pam.maxval.zeros"), string("TUPLTYPE ") + tt};
  // drawn permutation of the header lines
  for (size_t i = lines.size(); i > 1; i--) {
    size_t j = choose(i, "pam.order");
    std::swap(lines[i - 1], lines[i - 1 - j]);
  }
  for (auto& l : lines) {
    s += l + "\n";
    e.marks.push_back(s.size());
  }
  s += "ENDHDR\n";
  e.marks.push_back(s.size());
  size_t data_start = s.size();
  e.expect = src;
  e.expect.alpha = alpha;
  size_t row_bytes = src.w * ((gray ? 1 : 3) + (alpha ? 1 : 0)) * (src.cw / 8);
  for (size_t y = 0; y < src.h; y++) {
    for (size_t x = 0; x < src.w; x++) {
      Px q = src.at(x, y);
      if (gray) q.g = q.b = q.r;
      if (!alpha) q.a = maxval;
      put_sample(s, q.r, src.cw);
      if (!gray) {
        put_sample(s, q.g, src.cw);
        put_sample(s, q.b, src.cw);
      }
      if (alpha) put_sample(s, q.a, src.cw);
      e.expect.px[y * src.w + x] = q;
    }
    e.marks.push_back(data_start + (y + 1) * row_bytes);
  }
  return e;
}

// BMP: 24/32-bit BI_RGB with 40/52/56/108/124-byte headers, 32-bit BI_BITFIELDS (56/108/124) with any byte-mask
// permutation; bottom-up or top-down; optional gap before the pixel array.
Encoded enc_bmp(const Pic& src8) {
  Encoded e;
  bool bitfields = choose(2, "bmp.bitfields");
  int bpp = bitfields ? 32 : (choose(2, "bmp.bpp") ? 32 : 24);
  // info header sizes: 40 (BITMAPINFOHEADER), 52 (V2: + RGB masks), 56 (V3: + alpha mask, what Photoshop writes),
  // 108 (V4), 124 (V5). BI_BITFIELDS with four masks needs at least 56.
  uint32_t hdr = bitfields ? (uint32_t)pick({124, 108, 56}, "bmp.hdr.v") : (uint32_t)pick({40, 108, 124, 52, 56}, "bmp.hdr");
  bool top_down = choose(2, "bmp.topdown");
  uint32_t gap = choose(3, "bmp.gap") == 2 ? 1 + choose(9, "bmp.gap.len") : 0;
  int perm[4] = {0, 1, 2, 3}; // byte offset within the little-endian dword of r,g,b,a
  if (bitfields) {
    for (int i = 4; i > 1; i--) {
      int j = choose(i, "bmp.maskperm");
      std::swap(perm[i - 1], perm[i - 1 - j]);
    }
  } else {
    perm[0] = 2; // BI_RGB is B,G,R(,X)
    perm[1] = 1;
    perm[2] = 0;
    perm[3] = 3;
  }
  e.kind = string("BMP") + std::to_string(bpp) + (bitfields ? "/BITFIELDS" : "/RGB") + "/hdr" + std::to_string(hdr) + (top_down ? "/top-down" : "/bottom-up") + (gap ? "/gap" : "");
  size_t pixel_bytes = bpp / 8;
  size_t row = src8.w * pixel_bytes;
  size_t pad = (4 - row % 4) % 4;
  uint32_t data_offset = 14 + hdr + gap;
  uint32_t file_size = data_offset + (row + pad) * src8.h;
  string& s = e.bytes;
  s = "BM";
  e.marks.push_back(1);
  e.marks.push_back(2);
  put_le32(s, file_size);
  put_le16(s, 0);
  put_le16(s, 0);
  put_le32(s, data_offset);
  e.marks.push_back(s.size()); // 14
  put_le32(s, hdr);
  e.marks.push_back(s.size()); // 18
  put_le32(s, (uint32_t)src8.w);
  put_le32(s, top_down ? (uint32_t)(-(int32_t)src8.h) : (uint32_t)src8.h);
  put_le16(s, 1);
  put_le16(s, bpp);
  put_le32(s, bitfields ? 3 : 0);
  put_le32(s, (row + pad) * src8.h);
  put_le32(s, 2835);
  put_le32(s, 2835);
  put_le32(s, 0);
  put_le32(s, 0);
  e.marks.push_back(s.size()); // 54
  if (hdr >= 52) {
    uint32_t masks[4];
    for (int c = 0; c < 4; c++) masks[c] = bitfields ? (0xFFu << (8 * perm[c])) : 0;
    for (int c = 0; c < (hdr >= 56 ? 4 : 3); c++) put_le32(s, masks[c]);
    e.marks.push_back(s.size());
  }
  if (hdr >= 108) {
    put_le32(s, 0x73524742);
    for (int i = 0; i < 9; i++) put_le32(s, 0);
    for (int i = 0; i < 3; i++) put_le32(s, 0);
    e.marks.push_back(s.size()); // 122
    if (hdr >= 124) {
      put_le32(s, 8);
      put_le32(s, 0);
      put_le32(s, 0);
      put_le32(s, 0);
      e.marks.push_back(s.size()); // 138
    }
  }
  // (what fills the gap and the row padding is unspecified: other writers leave 00, FF or garbage there)
  char gap_byte = (char)pick({0xEE, 0xFF, 0x00}, "bmp.gap.byte");
  char pad_byte = (char)pick({0x00, 0xFF, 0xAA}, "bmp.pad.byte");
  s.append(gap, gap_byte);
  e.marks.push_back(s.size());
  e.expect = src8;
  e.expect.alpha = bitfields;
  e.expect.cw = 8;
  for (size_t fy = 0; fy < src8.h; fy++) {
    size_t y = top_down ? fy : (src8.h - 1 - fy);
    for (size_t x = 0; x < src8.w; x++) {
      Px q = src8.at(x, y);
      uint8_t px[4] = {0, 0, 0, 0};
      px[perm[0]] = q.r;
      px[perm[1]] = q.g;
      px[perm[2]] = q.b;
      if (pixel_bytes == 4) px[perm[3]] = bitfields ? q.a : 0x5C; // X byte of 32-bit BI_RGB is ignored
      s.append((const char*)px, pixel_bytes);
      if (!bitfields) q.a = 0xFF;
      e.expect.px[y * src8.w + x] = q;
    }
    e.marks.push_back(s.size());
    s.append(pad, pad_byte);
    e.marks.push_back(s.size());
  }
  return e;
}

// ------------------------------------------------------------------ independent decoders (own output)

uint32_t own_crc32(const uint8_t* p, size_t n, uint32_t crc = 0) {
  crc = ~crc;
  for (size_t i = 0; i < n; i++) {
    crc ^= p[i];
    for (int k = 0; k < 8; k++) crc = (crc >> 1) ^ (0xEDB88320u & (0u - (crc & 1)));
  }
  return ~crc;
}

uint32_t be32(const uint8_t* p) { return ((uint32_t)p[0] << 24) | (p[1] << 16) | (p[2] << 8) | p[3]; }
uint32_t le32(const uint8_t* p) { return ((uint32_t)p[3] << 24) | (p[2] << 16) | (p[1] << 8) | p[0]; }
uint16_t le16(const uint8_t* p) { return (p[1] << 8) | p[0]; }

// returns "" and fills out/marks, or an error text
string dec_png(const string& file, Pic& out, std::vector<size_t>& marks) {
  const uint8_t* p = (const uint8_t*)file.data();
  size_t n = file.size();
  static const uint8_t SIG[8] = {137, 80, 78, 71, 13, 10, 26, 10};
  if (n < 8 || memcmp(p, SIG, 8)) return "bad PNG signature";
  marks.push_back(4);
  marks.push_back(8);
  size_t off = 8;
  bool seen_ihdr = false, seen_iend = false, seen_idat = false, idat_ended = false;
  uint32_t w = 0, h = 0;
  int color_type = -1;
  string idat;
  while (off < n) {
    if (seen_iend) return "data after IEND";
    if (off + 12 > n) return "truncated chunk header";
    uint32_t len = be32(p + off);
    if (len > 0x7FFFFFFF || off + 12 + (size_t)len > n) return "chunk length runs past the end of the file";
    const uint8_t* type = p + off + 4;
    const uint8_t* data = p + off + 8;
    uint32_t crc = be32(p + off + 8 + len);
    if (own_crc32(type, 4 + len) != crc) return string("CRC mismatch in chunk ") + string((const char*)type, 4);
    string t((const char*)type, 4);
    marks.push_back(off + 4);
    marks.push_back(off + 8);
    if (len) marks.push_back(off + 8 + len / 2);
    marks.push_back(off + 8 + len);
    marks.push_back(off + 12 + len);
    if (!seen_ihdr && t != "IHDR") return "first chunk is not IHDR";
    if (t == "IHDR") {
      if (seen_ihdr) return "duplicate IHDR";
      if (len != 13) return "IHDR length is not 13";
      seen_ihdr = true;
      w = be32(data);
      h = be32(data + 4);
      if (data[8] != 8) return "bit depth is not 8";
      color_type = data[9];
      if (color_type != 2 && color_type != 6) return "colour type is not 2 or 6";
      if (data[10] != 0 || data[11] != 0 || data[12] != 0) return "compression/filter/interlace method not 0";
      if (w == 0 || h == 0) return "zero dimension";
    } else if (t == "IDAT") {
      if (idat_ended) return "IDAT chunks are not consecutive";
      seen_idat = true;
      idat.append((const char*)data, len);
    } else if (t == "IEND") {
      if (len != 0) return "IEND has data";
      seen_iend = true;
    } else {
      if (seen_idat) idat_ended = true;
      if (!(type[0] & 0x20)) return "unknown critical chunk " + t;
      if (t == "gAMA" && len != 4) return "gAMA length is not 4";
      if (t == "gAMA" && seen_idat) return "gAMA after IDAT";
    }
    off += 12 + len;
  }
  if (!seen_iend) return "no IEND chunk";
  if (!seen_idat) return "no IDAT chunk";
  size_t bpp = color_type == 6 ? 4 : 3;
  size_t stride = w * bpp;
  std::vector<uint8_t> raw((stride + 1) * (size_t)h);
  uLongf raw_len = raw.size();
  int zr = uncompress(raw.data(), &raw_len, (const Bytef*)idat.data(), idat.size());
  if (zr != Z_OK) return "zlib stream does not inflate (" + std::to_string(zr) + ")";
  if (raw_len != raw.size()) return "inflated size " + std::to_string(raw_len) + " is not height*(1+width*bpp) = " + std::to_string(raw.size());
  out.w = w;
  out.h = h;
  out.alpha = color_type == 6;
  out.cw = 8;
  out.px.resize((size_t)w * h);
  std::vector<uint8_t> prev(stride, 0), cur(stride);
  for (size_t y = 0; y < h; y++) {
    const uint8_t* line = raw.data() + y * (stride + 1);
    int ft = line[0];
    if (ft > 4) return "invalid filter type";
    for (size_t i = 0; i < stride; i++) {
      int a = i >= bpp ? cur[i - bpp] : 0;
      int b = prev[i];
      int c = i >= bpp ? prev[i - bpp] : 0;
      int x = line[1 + i];
      int v;
      switch (ft) {
        case 0: v = x; break;
        case 1: v = x + a; break;
        case 2: v = x + b; break;
        case 3: v = x + ((a + b) >> 1); break;
        default: {
          int pa = abs(b - c), pb = abs(a - c), pc = abs(a + b - 2 * c);
          int pr = (pa <= pb && pa <= pc) ? a : (pb <= pc ? b : c);
          v = x + pr;
        }
      }
      cur[i] = (uint8_t)v;
    }
    for (size_t x = 0; x < w; x++) {
      Px& q = out.px[y * w + x];
      q.r = cur[x * bpp];
      q.g = cur[x * bpp + 1];
      q.b = cur[x * bpp + 2];
      q.a = bpp == 4 ? cur[x * bpp + 3] : 0xFF;
    }
    prev = cur;
  }
  return "";
}

string dec_bmp(const string& file, Pic& out, std::vector<size_t>& marks) {
  const uint8_t* p = (const uint8_t*)file.data();
  size_t n = file.size();
  if (n < 14 + 40) return "file shorter than the smallest BMP header";
  if (p[0] != 'B' || p[1] != 'M') return "bad BMP signature";
  if (le32(p + 2) != n) return "file size field " + std::to_string(le32(p + 2)) + " is not the file size " + std::to_string(n);
  uint32_t data_offset = le32(p + 10);
  uint32_t hdr = le32(p + 14);
  if (hdr != 40 && hdr != 108 && hdr != 124) return "info header size " + std::to_string(hdr) + " is not 40, 108 or 124";
  if (14 + (size_t)hdr > n) return "header runs past end of file";
  int32_t w = (int32_t)le32(p + 18);
  int32_t hs = (int32_t)le32(p + 22);
  if (le16(p + 26) != 1) return "planes is not 1";
  int bpp = le16(p + 28);
  uint32_t comp = le32(p + 30);
  uint32_t image_size = le32(p + 34);
  if (w <= 0 || hs == 0) return "bad dimensions";
  size_t h = hs < 0 ? -(int64_t)hs : hs;
  bool top_down = hs < 0;
  if (data_offset < 14 + hdr || data_offset > n) return "data offset out of range";
  for (size_t m : {(size_t)1, (size_t)2, (size_t)6, (size_t)10, (size_t)14, (size_t)18, (size_t)22, (size_t)26, (size_t)28, (size_t)30, (size_t)34, (size_t)54}) marks.push_back(m);
  marks.push_back(14 + hdr);
  marks.push_back(data_offset);
  int off_r, off_g, off_b, off_a = -1;
  if (comp == 0) {
    if (bpp != 24 && bpp != 32) return "BI_RGB with unsupported depth";
    off_b = 0;
    off_g = 1;
    off_r = 2;
  } else if (comp == 3) {
    if (bpp != 32) return "BI_BITFIELDS with depth other than 32";
    if (hdr < 108) return "BI_BITFIELDS needs masks in a V4/V5 header";
    auto mask_off = [&](uint32_t m) -> int {
      switch (m) {
        case 0x000000FFu: return 0;
        case 0x0000FF00u: return 1;
        case 0x00FF0000u: return 2;
        case 0xFF000000u: return 3;
        default: return -1;
      }
    };
    off_r = mask_off(le32(p + 54));
    off_g = mask_off(le32(p + 58));
    off_b = mask_off(le32(p + 62));
    off_a = mask_off(le32(p + 66));
    if (off_r < 0 || off_g < 0 || off_b < 0 || off_a < 0) return "masks are not whole bytes";
    if (((1 << off_r) | (1 << off_g) | (1 << off_b) | (1 << off_a)) != 15) return "masks overlap";
  } else {
    return "unsupported compression";
  }
  size_t pixel_bytes = bpp / 8;
  size_t row = (size_t)w * pixel_bytes;
  size_t pad = (4 - row % 4) % 4;
  if (data_offset + (row + pad) * h != n) return "pixel array size does not match: offset " + std::to_string(data_offset) + " + " + std::to_string((row + pad) * h) + " != " + std::to_string(n);
  if (image_size != 0 && image_size != (row + pad) * h && image_size != row * h) return "image_size field is wrong";
  out.w = w;
  out.h = h;
  out.alpha = comp == 3;
  out.cw = 8;
  out.px.resize((size_t)w * h);
  for (size_t fy = 0; fy < h; fy++) {
    size_t y = top_down ? fy : (h - 1 - fy);
    const uint8_t* line = p + data_offset + fy * (row + pad);
    for (size_t x = 0; x < (size_t)w; x++) {
      Px& q = out.px[y * w + x];
      q.r = line[x * pixel_bytes + off_r];
      q.g = line[x * pixel_bytes + off_g];
      q.b = line[x * pixel_bytes + off_b];
      q.a = off_a >= 0 ? line[x * pixel_bytes + off_a] : 0xFF;
    }
    marks.push_back(data_offset + fy * (row + pad) + row);
    marks.push_back(data_offset + (fy + 1) * (row + pad));
  }
  return "";
}

// P6 / P7 RGB / RGB_ALPHA, 8-bit
string dec_ppm8(const string& file, Pic& out, std::vector<size_t>& marks) {
  size_t n = file.size();
  if (n < 3 || file[0] != 'P') return "bad signature";
  size_t pos = 2;
  size_t w = 0, h = 0, maxval = 0, depth = 0;
  bool alpha = false;
  marks.push_back(1);
  marks.push_back(2);
  if (file[1] == '6') {
    auto token = [&](size_t& v) -> bool {
      while (pos < n && isspace((unsigned char)file[pos])) pos++;
      size_t st = pos;
      v = 0;
      while (pos < n && isdigit((unsigned char)file[pos])) v = v * 10 + (file[pos++] - '0');
      marks.push_back(pos);
      return pos > st;
    };
    if (!token(w) || !token(h) || !token(maxval)) return "bad P6 header";
    if (pos >= n || !isspace((unsigned char)file[pos])) return "no whitespace after maxval";
    pos++;
    depth = 3;
  } else if (file[1] == '7') {
    if (file[2] != '\n') return "P7 not followed by newline";
    pos = 3;
    string tuple;
    bool end = false;
    while (pos < n && !end) {
      size_t e = file.find('\n', pos);
      if (e == string::npos) return "unterminated header line";
      string line = file.substr(pos, e - pos);
      pos = e + 1;
      marks.push_back(pos);
      if (line == "ENDHDR") end = true;
      else if (!line.compare(0, 6, "WIDTH ")) w = strtoull(line.c_str() + 6, nullptr, 10);
      else if (!line.compare(0, 7, "HEIGHT ")) h = strtoull(line.c_str() + 7, nullptr, 10);
      else if (!line.compare(0, 6, "DEPTH ")) depth = strtoull(line.c_str() + 6, nullptr, 10);
      else if (!line.compare(0, 7, "MAXVAL ")) maxval = strtoull(line.c_str() + 7, nullptr, 10);
      else if (!line.compare(0, 9, "TUPLTYPE ")) tuple = line.substr(9);
      else return "unknown P7 header line";
    }
    if (!end) return "no ENDHDR";
    if (tuple == "RGB_ALPHA") {
      alpha = true;
      if (depth != 4) return "RGB_ALPHA with DEPTH != 4";
    } else if (tuple == "RGB") {
      if (depth != 3) return "RGB with DEPTH != 3";
    } else {
      return "unexpected TUPLTYPE " + tuple;
    }
  } else {
    return "not P6/P7";
  }
  if (maxval != 255) return "maxval is not 255 for an 8-bit image";
  if (!w || !h) return "zero dimension";
  if (n - pos != w * h * depth) return "raster size " + std::to_string(n - pos) + " is not width*height*depth = " + std::to_string(w * h * depth);
  out.w = w;
  out.h = h;
  out.alpha = alpha;
  out.cw = 8;
  out.px.resize(w * h);
  const uint8_t* p = (const uint8_t*)file.data() + pos;
  for (size_t i = 0; i < w * h; i++) {
    out.px[i].r = p[i * depth];
    out.px[i].g = p[i * depth + 1];
    out.px[i].b = p[i * depth + 2];
    out.px[i].a = alpha ? p[i * depth + 3] : 0xFF;
  }
  for (size_t y = 1; y <= h; y++) marks.push_back(pos + y * w * depth);
  return "";
}

// ------------------------------------------------------------------ driving phosg

void extract(const phosg::Image& img, Pic& out) {
  out.w = img.get_width();
  out.h = img.get_height();
  out.alpha = img.get_has_alpha();
  out.cw = img.get_channel_width();
  out.px.resize(out.w * out.h);
  for (size_t y = 0; y < out.h; y++)
    for (size_t x = 0; x < out.w; x++) {
      Px& q = out.px[y * out.w + x];
      img.read_pixel(x, y, &q.r, &q.g, &q.b, &q.a);
    }
}

struct LoadResult {
  bool threw = false;
  bool nonstd_exception = false;
  string what;
  Pic pic;
  size_t leaked = 0;
  uint64_t read_errors = 0;
};

// Presents `disk` (what the simulated disk durably holds) to Image(FILE*). `script` drives the
// cookie reads (see vfs::Inode::read_script).
bool g_load_by_name = false; // present the file through Image(filename) instead of Image(FILE*)
bool g_load_from_pipe = false; // the FILE* cannot seek or tell (a pipe, a socket, standard input)
size_t g_intr_at = SIZE_MAX, g_intr_piece = 0; // one interrupted read at/after this file offset (vfs::Inode::intr_*)

LoadResult attempt_load_by_name(const string& disk, const std::vector<int>& script);

LoadResult attempt_load(const string& disk, const std::vector<int>& script) {
  if (g_load_by_name) return attempt_load_by_name(disk, script);
  LoadResult res;
  auto ino = std::make_shared<vfs::Inode>();
  ino->kind = vfs::Kind::REG;
  ino->data = disk;
  ino->read_script = script;
  ino->intr_at_offset = g_intr_at;
  ino->intr_piece = g_intr_piece;
  res.pic.px.reserve(64 * 64);
  res.what.reserve(256);
  vfs::calls_reset();
  window_open();
  {
    FILE* f = vfs::fopen_inode(ino, "r", nullptr, !g_load_from_pipe);
    try {
      phosg::Image img(f);
      {
        Quiet q;
        extract(img, res.pic);
      }
    } catch (const std::exception& e) {
      Quiet q;
      res.threw = true;
      res.what = e.what();
    } catch (...) {
      Quiet q;
      res.threw = true;
      res.nonstd_exception = true;
    }
    fclose(f);
  }
  res.leaked = window_close();
  res.read_errors = vfs::world().calls.errors;
  return res;
}

// Same, through the filename constructor: the file lives at a path of the simulated disk, the library
// opens (and must close) it itself.
LoadResult attempt_load_by_name(const string& disk, const std::vector<int>& script) {
  LoadResult res;
  string path = "/sim/pics/in.img";
  {
    Quiet q;
    auto ino = vfs::mkfile(path, disk);
    ino->read_script = script;
    ino->intr_at_offset = g_intr_at;
    ino->intr_piece = g_intr_piece;
    res.pic.px.reserve(64 * 64);
    res.what.reserve(256);
  }
  vfs::calls_reset();
  size_t open_before = vfs::open_fd_count();
  window_open();
  {
    try {
      phosg::Image img(path);
      {
        Quiet q;
        extract(img, res.pic);
      }
    } catch (const std::exception& e) {
      Quiet q;
      res.threw = true;
      res.what = e.what();
    } catch (...) {
      Quiet q;
      res.threw = true;
      res.nonstd_exception = true;
    }
  }
  res.leaked = window_close();
  res.read_errors = vfs::world().calls.errors;
  if (vfs::open_fd_count() != open_before) {
    fail("load/file_left_open", res.threw ? "by_name/failed_load" : "by_name/successful_load",
        string("Image(filename) left the file open after ") + (res.threw ? "a failed load: " + res.what : "a successful load"));
  }
  return res;
}

// Offset of the first pixel byte of a file (SIZE_MAX if it cannot be told): BMP says so in its header; in the
// PNM family the pixel block is the tail of the file and its size follows from the decoded picture.
size_t pixel_data_start(const string& bytes, const Pic& decoded) {
  if (bytes.size() >= 14 && bytes[0] == 'B' && bytes[1] == 'M') {
    uint32_t off;
    memcpy(&off, bytes.data() + 10, 4);
    return off < bytes.size() ? off : SIZE_MAX;
  }
  if (bytes.size() < 3 || bytes[0] != 'P') return SIZE_MAX;
  size_t channels;
  if (bytes[1] == '5') channels = 1;
  else if (bytes[1] == '6') channels = 3;
  else if (bytes[1] == '7') {
    size_t t = bytes.find("TUPLTYPE ");
    if (t == string::npos) return SIZE_MAX;
    string name = bytes.substr(t + 9, bytes.find('\n', t) - t - 9);
    if (name == "GRAYSCALE") channels = 1;
    else if (name == "GRAYSCALE_ALPHA") channels = 2;
    else if (name == "RGB") channels = 3;
    else if (name == "RGB_ALPHA") channels = 4;
    else return SIZE_MAX;
  } else return SIZE_MAX;
  size_t len = decoded.w * decoded.h * channels * (decoded.cw / 8);
  return (len > 0 && len < bytes.size()) ? bytes.size() - len : SIZE_MAX;
}

phosg::Image build_image(const Pic& p) {
  phosg::Image img(p.w, p.h, p.alpha, p.cw);
  for (size_t y = 0; y < p.h; y++)
    for (size_t x = 0; x < p.w; x++) {
      const Px& q = p.at(x, y);
      img.write_pixel(x, y, q.r, q.g, q.b, q.a);
    }
  return img;
}

// The property does not say that the different save entry points (string, FILE*, filename) must produce the same
// BYTES, only that what they produce is a valid file holding the picture. If they differ, the other output is
// judged on its own: 8-bit files by the independent decoder of its container (0 PPM, 1 BMP, 2 PNG), wide PPM by
// loading it back. Returns "" if it is a valid encoding of `expect`.
string judge_alternative_encoding(const string& bytes, unsigned container, const Pic& expect) {
  if (expect.cw == 8) {
    Pic dec;
    std::vector<size_t> marks;
    string err = container == 0 ? dec_ppm8(bytes, dec, marks) : (container == 1 ? dec_bmp(bytes, dec, marks) : dec_png(bytes, dec, marks));
    if (!err.empty()) return "not a valid file for an independent decoder: " + err;
    return pic_diff(dec, expect, true);
  }
  auto ino = std::make_shared<vfs::Inode>();
  ino->kind = vfs::Kind::REG;
  ino->data = bytes;
  FILE* f = vfs::fopen_inode(ino, "r", nullptr, true);
  string res;
  try {
    phosg::Image back(f);
    Pic got;
    extract(back, got);
    res = pic_diff(got, expect, true);
  } catch (const std::exception& e) {
    res = string("rejected by the loader: ") + e.what();
  }
  fclose(f);
  return res;
}

string short_kind(const string& k) {
  size_t s = k.find('/');
  return s == string::npos ? k : k.substr(0, s);
}

// Judges one faulted/torn presentation of `enc` against the fault-free decode `reference`.
void judge_faulty(const Encoded& enc, const Pic& reference, const string& disk, const std::vector<int>& script, const string& arm, size_t cut) {
  set_context("load/" + enc.kind + "/cw" + std::to_string(enc.expect.cw) + "/" + arm);
  LoadResult r = attempt_load(disk, script);
  if (r.leaked) {
    // a lazily initialised cache cannot leak twice; a real leak does
    LoadResult r2 = attempt_load(disk, script);
    if (r2.leaked) {
      fail("load/leak", short_kind(enc.kind) + "/" + arm, "Image(FILE*) on a " + enc.kind + " file (" + arm + ", " + std::to_string(disk.size()) + " of " +
              std::to_string(enc.bytes.size()) + " bytes) left " + std::to_string(r2.leaked) + " heap block(s) allocated" + (r.threw ? " after throwing '" + r.what + "'" : ""));
    }
    VS_PROBE("leak_balance_nonzero_once");
  }
  if (r.nonstd_exception) fail("load/nonstandard_exception", short_kind(enc.kind) + "/" + arm, "Image(FILE*) threw something not derived from std::exception");
  if (r.threw) {
    count("faulty.rejected");
    return;
  }
  count("faulty.decoded");
  string d = pic_diff(r.pic, reference, true);
  if (!d.empty()) {
    fail("load/truncated_file_decoded_differently", short_kind(enc.kind) + "/" + arm,
        "a " + enc.kind + " file presented with " + arm + " (" + std::to_string(disk.size()) + " of " + std::to_string(enc.bytes.size()) + " bytes" +
            (cut != (size_t)-1 ? ", cut at offset " + std::to_string(cut) : "") + ") was neither rejected nor decoded identically: " + d);
  }
}

// A program may have installed any global C++ locale; file formats must not follow it.
struct GroupingPunct : std::numpunct<char> {
  char do_thousands_sep() const override { return ','; }
  char do_decimal_point() const override { return ','; }
  std::string do_grouping() const override { return "\3"; }
};

struct LocaleGuard {
  std::locale old;
  bool on = false;
  ~LocaleGuard() {
    if (on) std::locale::global(old);
  }
};

// ---- a second thread of the same process, working on a DIFFERENT image with its own streams. It is released
// when the primary call enters its k-th read()/write() on a simulated stream and runs to completion there (the
// primary thread is parked in the call, which is where a real scheduler would switch); so the interleaving is
// chosen by the tape, and nothing runs in parallel.
struct Intruder {
  unsigned fire_at = 0, calls = 0;
  bool fired = false;
  const phosg::Image* img = nullptr;
  phosg::Image::Format fmt = phosg::Image::Format::COLOR_PPM;
  const string* want_bytes = nullptr;
  const Pic* want_pic = nullptr;
  bool load_back = false;
  string failure_class, failure_key, failure_text;
} g_intruder;

void intruder_job() {
  Intruder& I = g_intruder;
  auto ino = std::make_shared<vfs::Inode>();
  ino->kind = vfs::Kind::REG;
  FILE* f = vfs::fopen_inode(ino, "w", nullptr, true);
  try {
    I.img->save(f, I.fmt);
  } catch (const std::exception& e) {
    I.failure_class = "save/threw";
    I.failure_text = string("the second thread's save(FILE*) threw: ") + e.what();
  }
  fclose(f);
  if (I.failure_class.empty() && ino->data != *I.want_bytes) {
    // other bytes than the same image gives when saved alone through save(Format): fine if they are a valid file
    unsigned cont = I.fmt == phosg::Image::Format::COLOR_PPM ? 0 : (I.fmt == phosg::Image::Format::WINDOWS_BITMAP ? 1 : 2);
    string why = judge_alternative_encoding(ino->data, cont, *I.want_pic);
    if (!why.empty()) {
      I.failure_class = "save/file_differs_from_string";
      I.failure_text = "the second thread's save(FILE*) wrote " + std::to_string(ino->data.size()) + " bytes that differ from what the same image gives when saved alone (" + std::to_string(I.want_bytes->size()) + " bytes) and are not a valid encoding of it: " + why;
    }
  }
  if (I.failure_class.empty() && I.load_back) {
    FILE* g = vfs::fopen_inode(ino, "r", nullptr, true);
    try {
      phosg::Image back(g);
      Pic got;
      extract(back, got);
      string d = pic_diff(got, *I.want_pic, true);
      if (!d.empty()) {
        I.failure_class = "roundtrip/differs";
        I.failure_text = "the second thread's save then load does not reproduce its image: " + d;
      }
    } catch (const std::exception& e) {
      I.failure_class = "load/valid_file_rejected";
      I.failure_text = string("the second thread's load rejected its own file: ") + e.what();
    }
    fclose(g);
  }
}

unsigned g_io_calls = 0;
void counting_hook(bool) { g_io_calls++; }

void intruder_hook(bool) {
  Intruder& I = g_intruder;
  if (I.fired) return;
  if (I.calls++ < I.fire_at) return;
  I.fired = true;
  vfs::world().io_hook = nullptr;
  ev("intruder.runs", I.calls);
  std::thread t(intruder_job);
  t.join();
  ev("intruder.done");
  VS_FAULT("second_thread_inside_io_call");
}

} // namespace

// ------------------------------------------------------------------ run

static void run() {
  vfs::reset();
  // (per-run state of the harness: a run that ends in a violation leaves through an exception)
  g_load_by_name = g_load_from_pipe = false;
  g_intr_at = SIZE_MAX;
  g_intr_piece = 0;
  g_intruder = Intruder();
  // the caller's FILE* may be unbuffered or have a tiny buffer: chunking then reaches the library's loops
  vfs::set_stdio_buffering(pick({0, 0, 1, 16, 255, 256, 4096}, "stdio.buffering"));
  // a caller never clears errno for the library: it is whatever an earlier, unrelated call left behind
  set_entry_errno((int)pick({0, 0, EINTR, EAGAIN, ENOENT, EBADF, ENOSPC, ERANGE}, "env.errno_on_entry"));
  LocaleGuard locale_guard;
  if (choose(6, "env.locale") == 5) {
    locale_guard.on = true;
    locale_guard.old = std::locale::global(std::locale(std::locale::classic(), new GroupingPunct));
    VS_FAULT("global_locale_groups_digits");
  }
  Pic src = gen_pic();
  unsigned container = choose(7, "container"); // 0 PPM own, 1 BMP own, 2 PNG own, 3 P5, 4 P6 foreign, 5 P7 foreign, 6 BMP foreign
  bool own = container <= 2;
  Encoded enc;
  Pic reference; // fault-free decode by phosg (for the fault arms)
  bool loadable = true;

  if (container == 1 || container == 2 || container == 6) {
    // 8-bit only containers: narrow the picture
    uint64_t m = 0xFF;
    for (auto& q : src.px) {
      q.r &= m;
      q.g &= m;
      q.b &= m;
      q.a &= m;
    }
    src.cw = 8;
  }
  ev("pic", src.w, src.h, src.cw * 2 + src.alpha);

  if (own) {
    phosg::Image::Format fmt = container == 0 ? phosg::Image::Format::COLOR_PPM : (container == 1 ? phosg::Image::Format::WINDOWS_BITMAP : phosg::Image::Format::PNG);
    const char* fname = container == 0 ? (src.alpha ? "PPM-P7" : "PPM-P6") : (container == 1 ? "BMP" : "PNG");
    enc.kind = string("own/") + fname;
    count(container == 0 ? "container.own_ppm" : (container == 1 ? "container.own_bmp" : "container.own_png"));
    set_context(string("save/") + fname + "/cw" + std::to_string(src.cw));
    phosg::Image img = build_image(src);
    // "any image": the object may have reached its variable by copy or move, possibly replacing an
    // image of another shape
    switch (choose(6, "img.history")) {
      case 1: {
        phosg::Image other(3, 2, !src.alpha, src.cw == 8 ? 16 : 8);
        other = std::move(img);
        img = std::move(other);
        VS_PROBE("image_move_assigned");
        break;
      }
      case 2: {
        phosg::Image other(2, 5, src.alpha, src.cw == 64 ? 8 : 64);
        other = img;
        phosg::Image third;
        third = other;
        img = std::move(third);
        VS_PROBE("image_copy_assigned");
        break;
      }
      case 3: {
        phosg::Image copy(img);
        phosg::Image moved(std::move(copy));
        img = std::move(moved);
        break;
      }
      default:
        break;
    }
    enc.expect = src;
    if (!src.alpha)
      for (auto& q : enc.expect.px) q.a = mask_for(src.cw);
    try {
      enc.bytes = img.save(fmt);
    } catch (const std::exception& e) {
      fail("save/threw", fname, string("Image::save(Format) threw: ") + e.what());
    }
    hash_bytes(enc.bytes.data(), enc.bytes.size());
    // save(FILE*) onto the simulated disk, fault-free: must be byte-identical to save(Format)
    {
      auto ino = std::make_shared<vfs::Inode>();
      ino->kind = vfs::Kind::REG;
      FILE* f = vfs::fopen_inode(ino, "w", nullptr, true);
      try {
        img.save(f, fmt);
      } catch (const std::exception& e) {
        fclose(f);
        fail("save/threw", fname, string("Image::save(FILE*) threw on a healthy disk: ") + e.what());
      }
      fclose(f);
      if (ino->data != enc.bytes) {
        string why = judge_alternative_encoding(ino->data, container, enc.expect);
        if (!why.empty()) fail("save/file_differs_from_string", fname, "save(FILE*) wrote " + std::to_string(ino->data.size()) + " bytes that differ from save(Format) (" + std::to_string(enc.bytes.size()) + " bytes) and are not a valid encoding of the picture either: " + why);
        VS_PROBE("save_paths_differ_both_valid");
      }
    }
    // save(filename) onto the simulated disk (fopen is routed to the simulated file system)
    if (choose(4, "save.by_name") == 3) {
      vfs::mkdir_p("/sim/pics");
      string path = string("/sim/pics/out.") + phosg::Image::file_extension_for_format(fmt);
      if (choose(2, "save.by_name.preexisting")) vfs::mkfile(path, string(enc.bytes.size() + 17, 'Z')); // must be replaced, not overwritten in place
      // the program may have no descriptor 0 (a daemon): the file the library opens is then handed number 0
      if (choose(4, "save.by_name.fd0") == 3) {
        vfs::world().hand_out_fd0 = true;
        VS_PROBE("save_by_filename_gets_descriptor_0");
      }
      try {
        if (choose(2, "save.by_name.form")) img.save(path, fmt);
        else img.save(path.c_str(), fmt);
      } catch (const std::exception& e) {
        fail("save/threw", fname, string("Image::save(filename) threw on a healthy disk: ") + e.what());
      }
      vfs::world().hand_out_fd0 = false;
      auto n = vfs::lookup(path);
      if (!n) fail("save/file_differs_from_string", string(fname) + "/by_name", "save(filename) left no file on disk");
      if (n->data != enc.bytes) {
        string why = judge_alternative_encoding(n->data, container, enc.expect);
        if (!why.empty()) fail("save/file_differs_from_string", string(fname) + "/by_name", "save(filename) left " + std::to_string(n->data.size()) + " bytes on disk that differ from save(Format) (" + std::to_string(enc.bytes.size()) + " bytes) and are not a valid encoding of the picture either: " + why);
        VS_PROBE("save_paths_differ_both_valid");
      }
      if (vfs::open_fd_count()) fail("save/stream_left_open", fname, "save(filename) did not close the file");
      VS_PROBE("saved_by_filename");
      if (container != 2) {
        // and load it back by name
        set_context(string("load/by_name/") + fname);
        try {
          phosg::Image back = choose(2, "load.by_name.form") ? phosg::Image(path) : phosg::Image(path.c_str());
          Pic got;
          extract(back, got);
          string d = pic_diff(got, enc.expect, true);
          if (!d.empty()) fail("roundtrip/differs", string(fname) + "/by_name", "save(filename) then Image(filename) does not reproduce the image: " + d);
        } catch (const AbortRun&) {
          throw;
        } catch (const std::exception& e) {
          fail("load/valid_file_rejected", string(fname) + "/by_name", string("Image(filename) rejected the file just saved: ") + e.what());
        }
        if (vfs::open_fd_count()) fail("load/stream_left_open", fname, "Image(filename) did not close the file");
        VS_PROBE("loaded_by_filename");
      }
    }
    // validity of the output for an independent decoder
    if (src.cw == 8) {
      Pic dec;
      string err = container == 0 ? dec_ppm8(enc.bytes, dec, enc.marks) : (container == 1 ? dec_bmp(enc.bytes, dec, enc.marks) : dec_png(enc.bytes, dec, enc.marks));
      if (!err.empty()) fail("save/invalid_file", fname, string("the ") + fname + " bytes written by phosg are not a valid file for an independent decoder: " + err);
      string d = pic_diff(dec, enc.expect, true);
      if (!d.empty()) fail("save/independent_decode_differs", fname, string("an independent ") + fname + " decoder reads different pixels than were saved: " + d);
      VS_PROBE("independent_decode_checked");
    }
    loadable = container != 2;
  } else {
    // foreign files from the harness's own encoders
    uint64_t full = mask_for(src.cw);
    uint64_t maxval = full;
    if (choose(4, "foreign.maxval") == 3) {
      // a maxval below the full range of the sample width (same channel width class)
      uint64_t lowest = src.cw == 8 ? 1 : (1ULL << (src.cw / 2));
      maxval = lowest + (mix64(src.w * 131 + src.h) % (full - lowest));
      if (maxval < lowest) maxval = lowest;
      for (auto& q : src.px) {
        q.r %= (maxval + 1);
        q.g %= (maxval + 1);
        q.b %= (maxval + 1);
        q.a %= (maxval + 1);
      }
    }
    switch (container) {
      case 3:
        enc = enc_pnm(src, true, maxval);
        count("container.foreign_P5");
        break;
      case 4:
        enc = enc_pnm(src, false, maxval);
        count("container.foreign_P6");
        break;
      case 5: {
        bool gray = choose(2, "pam.gray");
        enc = enc_pam(src, gray, src.alpha, maxval);
        count(gray ? "container.foreign_P7_gray" : "container.foreign_P7_rgb");
        break;
      }
      default:
        enc = enc_bmp(src);
        count("container.foreign_BMP");
        break;
    }
    hash_bytes(enc.bytes.data(), enc.bytes.size());
  }
  note(enc.kind + " " + std::to_string(src.w) + "x" + std::to_string(src.h) + " cw=" + std::to_string(src.cw) + (src.alpha ? " alpha" : "") + ", " + std::to_string(enc.bytes.size()) + " bytes");

  if (!loadable) {
    // PNG: phosg has no PNG reader; the loader must reject it cleanly
    set_context("load/own/PNG");
    LoadResult r = attempt_load(enc.bytes, {});
    if (!r.threw) fail("load/png_accepted", "PNG", "Image(FILE*) accepted a PNG file although phosg has no PNG reader");
    // torn PNG writes are judged on the writer's side only: every prefix must be invalid for the independent decoder
    size_t cut = choose_range(0, enc.bytes.size() - 1, "png.cut");
    Pic dec;
    std::vector<size_t> m;
    if (dec_png(enc.bytes.substr(0, cut), dec, m).empty()) fail("save/png_prefix_valid", "PNG", "a proper prefix of the PNG output (" + std::to_string(cut) + " bytes) is itself a valid PNG");
    return;
  }

  // ---- fault-free load: strict oracle
  set_context("load/" + enc.kind + "/cw" + std::to_string(enc.expect.cw) + "/intact");
  LoadResult clean = attempt_load(enc.bytes, {});
  if (clean.threw) fail("load/valid_file_rejected", short_kind(enc.kind) + (enc.kind.find("GRAYSCALE") != string::npos ? "/gray" : ""), "Image(FILE*) rejected a valid " + enc.kind + " file: " + clean.what);
  {
    string d = pic_diff(clean.pic, enc.expect, true);
    if (!d.empty()) {
      string k = short_kind(enc.kind);
      if (enc.kind.find("GRAYSCALE") != string::npos || k == "P5") k += "/gray";
      fail(own ? "roundtrip/differs" : "load/foreign_variant_decoded_wrong", k + "/cw" + std::to_string(enc.expect.cw),
          (own ? "save then load does not reproduce the image (" : "a valid foreign file was decoded to the wrong pixels (") + enc.kind + ", " + std::to_string(src.w) + "x" + std::to_string(src.h) + "): " + d);
    }
  }
  if (clean.leaked) {
    LoadResult again = attempt_load(enc.bytes, {});
    if (again.leaked) fail("load/leak", short_kind(enc.kind) + "/intact", "Image(FILE*) on a valid " + enc.kind + " file left " + std::to_string(again.leaked) + " heap block(s) allocated");
  }
  reference = clean.pic;
  if (src.w % 4) VS_PROBE("width_not_multiple_of_4");
  if (src.w == 64 && src.h == 64) VS_PROBE("largest_picture_64x64");
  if (enc.kind.find("GRAYSCALE") != string::npos || enc.kind == "P5") VS_PROBE("grayscale_input");
  if (enc.kind.find("BITFIELDS") != string::npos) VS_PROBE("bmp_bitfields_input");
  if (enc.kind.find("top-down") != string::npos) VS_PROBE("bmp_top_down_input");

  // ---- fault arm (one time in four the damaged file is presented through Image(filename))
  g_load_by_name = choose(4, "arm.by_name") == 3;
  if (g_load_by_name) VS_PROBE("faulty_file_loaded_by_filename");
  // ... and otherwise one time in four through a stream that cannot seek
  g_load_from_pipe = !g_load_by_name && choose(4, "arm.from_pipe") == 3;
  if (g_load_from_pipe) VS_PROBE("faulty_file_loaded_from_pipe");
  struct ResetByName {
    ~ResetByName() { g_load_by_name = g_load_from_pipe = false; }
  } reset_by_name;
  unsigned arm = choose(9, "arm");
  switch (arm) {
    case 0:
      count("arm.none");
      break;
    case 6: { // a second thread saves and loads another image while this call is inside read()/write()
      if (!own) {
        count("arm.none");
        break;
      }
      count("arm.second_thread");
      mark_nontrivial();
      g_load_by_name = g_load_from_pipe = false;
      // small or no stdio buffers: the library's calls reach the stream one by one, so there are many
      // places for the switch
      vfs::set_stdio_buffering(pick({1, 16, 255, 256}, "intruder.buffering"));
      Pic other = gen_pic();
      unsigned ofmt = choose(3, "intruder.fmt");
      if (ofmt) {
        for (auto& q : other.px) {
          q.r &= 0xFF;
          q.g &= 0xFF;
          q.b &= 0xFF;
          q.a &= 0xFF;
        }
        other.cw = 8;
      }
      phosg::Image::Format fmt2 = ofmt == 0 ? phosg::Image::Format::COLOR_PPM : (ofmt == 1 ? phosg::Image::Format::WINDOWS_BITMAP : phosg::Image::Format::PNG);
      phosg::Image other_img = build_image(other);
      Pic other_expect = other;
      if (!other.alpha)
        for (auto& q : other_expect.px) q.a = mask_for(other.cw);
      string other_bytes = other_img.save(fmt2);
      phosg::Image::Format fmt = container == 0 ? phosg::Image::Format::COLOR_PPM : (container == 1 ? phosg::Image::Format::WINDOWS_BITMAP : phosg::Image::Format::PNG);
      phosg::Image img = build_image(src);
      // one time in three the second thread saves the SAME image: save() is const, and const member functions of
      // one object may be called from several threads at once
      bool same_image = choose(3, "intruder.same_image") == 2;
      if (same_image) VS_PROBE("two_threads_save_one_image");
      auto arm_intruder = [&](const char* site, unsigned ncalls) {
        g_intruder = Intruder();
        g_intruder.fire_at = ncalls ? choose(ncalls, site) : 0;
        g_intruder.img = same_image ? &img : &other_img;
        g_intruder.fmt = same_image ? fmt : fmt2;
        g_intruder.want_bytes = same_image ? &enc.bytes : &other_bytes;
        g_intruder.want_pic = same_image ? &enc.expect : &other_expect;
        g_intruder.load_back = same_image ? container != 2 : ofmt != 2;
        vfs::world().io_hook = intruder_hook;
      };
      auto judge_intruder = [&](const char* during) {
        vfs::world().io_hook = nullptr;
        if (!g_intruder.fired) {
          count("second_thread.never_ran");
          return;
        }
        if (!g_intruder.failure_class.empty())
          fail(g_intruder.failure_class, string("second_thread/") + during, g_intruder.failure_text + " (it ran while another thread was inside " + during + " of a different image)");
      };
      // (1) during this thread's save
      set_context("save/" + enc.kind + "/second_thread");
      {
        auto ino = std::make_shared<vfs::Inode>();
        ino->kind = vfs::Kind::REG;
        // how many stream calls does this save make? (fault-free, so the same number as in the real attempt)
        {
          auto scratch = std::make_shared<vfs::Inode>();
          scratch->kind = vfs::Kind::REG;
          FILE* sf = vfs::fopen_inode(scratch, "w", nullptr, true);
          g_io_calls = 0;
          vfs::world().io_hook = counting_hook;
          try {
            img.save(sf, fmt);
          } catch (const std::exception&) {
          }
          fclose(sf);
          vfs::world().io_hook = nullptr;
        }
        FILE* f = vfs::fopen_inode(ino, "w", nullptr, true);
        arm_intruder("intruder.at.save", g_io_calls);
        try {
          img.save(f, fmt);
        } catch (const std::exception& e) {
          vfs::world().io_hook = nullptr;
          fclose(f);
          fail("save/threw", "second_thread/save", string("Image::save(FILE*) threw while a second thread saved another image: ") + e.what());
        }
        fclose(f);
        judge_intruder("save");
        if (ino->data != enc.bytes && !judge_alternative_encoding(ino->data, container, enc.expect).empty())
          fail("save/file_differs_from_string", "second_thread/save", "save(FILE*) wrote " + std::to_string(ino->data.size()) + " bytes that differ from save(Format) (" + std::to_string(enc.bytes.size()) + " bytes) when a second thread saved a different image in the middle of the call");
      }
      // (2) during this thread's load
      set_context("load/" + enc.kind + "/second_thread");
      {
        auto ino = std::make_shared<vfs::Inode>();
        ino->kind = vfs::Kind::REG;
        ino->data = enc.bytes;
        {
          FILE* sf = vfs::fopen_inode(ino, "r", nullptr, true);
          g_io_calls = 0;
          vfs::world().io_hook = counting_hook;
          try {
            phosg::Image scratch(sf);
          } catch (const std::exception&) {
          }
          fclose(sf);
          vfs::world().io_hook = nullptr;
        }
        FILE* f = vfs::fopen_inode(ino, "r", nullptr, true);
        arm_intruder("intruder.at.load", g_io_calls);
        Pic got;
        try {
          phosg::Image back(f);
          extract(back, got);
        } catch (const std::exception& e) {
          vfs::world().io_hook = nullptr;
          fclose(f);
          fail("load/valid_file_rejected", "second_thread/load", string("Image(FILE*) rejected a valid file while a second thread worked on another image: ") + e.what());
        }
        fclose(f);
        judge_intruder("load");
        string d = pic_diff(got, reference, true);
        if (!d.empty()) fail("roundtrip/differs", "second_thread/load", "Image(FILE*) decodes differently when a second thread saves and loads another image in the middle of the call: " + d);
      }
      break;
    }
    case 7: { // a signal interrupts one read inside the pixel data (the header parsers are not the subject: §13)
      size_t ds = pixel_data_start(enc.bytes, reference);
      if (ds == SIZE_MAX) {
        count("arm.none");
        break;
      }
      count("arm.interrupted_read");
      mark_nontrivial();
      g_intr_at = ds + choose_range(0, enc.bytes.size() - ds - 1, "intr.at");
      g_intr_piece = choose(3, "intr.piece.kind") == 0 ? 0 : 1 + choose(200, "intr.piece");
      ev("interrupted", g_intr_at, g_intr_piece);
      judge_faulty(enc, reference, enc.bytes, {}, "interrupted_read", (size_t)-1);
      g_intr_at = SIZE_MAX;
      g_intr_piece = 0;
      break;
    }
    case 8: { // two files back to back in one stream (a pipe of frames, an archive member followed by another)
      count("arm.two_in_stream");
      mark_nontrivial();
      g_load_by_name = false;
      Pic second = gen_pic();
      phosg::Image img2 = build_image(second);
      Pic expect2 = second;
      if (!second.alpha)
        for (auto& q : expect2.px) q.a = mask_for(second.cw);
      string bytes2 = img2.save(phosg::Image::Format::COLOR_PPM);
      auto ino = std::make_shared<vfs::Inode>();
      ino->kind = vfs::Kind::REG;
      ino->data = enc.bytes + bytes2;
      std::vector<int> script;
      for (unsigned i = 0, n = choose(20, "two.chunks"); i < n; i++) script.push_back(1 + choose(4096, "two.chunk.len"));
      ino->read_script = script;
      set_context("load/" + enc.kind + "/two_in_stream");
      FILE* f = vfs::fopen_inode(ino, "r", nullptr, !g_load_from_pipe);
      Pic got1, got2;
      string what1, what2;
      try {
        phosg::Image a(f);
        extract(a, got1);
      } catch (const std::exception& e) {
        what1 = e.what();
        if (what1.empty()) what1 = "exception";
      }
      if (what1.empty()) {
        try {
          phosg::Image b(f);
          extract(b, got2);
        } catch (const std::exception& e) {
          what2 = e.what();
          if (what2.empty()) what2 = "exception";
        }
      }
      fclose(f);
      VS_FAULT("second_file_follows_in_stream");
      if (!what1.empty()) fail("load/valid_file_rejected", short_kind(enc.kind) + "/followed_by_another", "a valid " + enc.kind + " file was rejected when another file follows it in the same stream: " + what1);
      string d1 = pic_diff(got1, reference, true);
      if (!d1.empty()) fail("load/followed_by_another_differs", short_kind(enc.kind), "a valid " + enc.kind + " file decodes differently when another file follows it in the same stream: " + d1);
      if (!what2.empty()) fail("load/next_file_in_stream_rejected", short_kind(enc.kind), "after loading a " + enc.kind + " file the stream is not positioned at its end: the valid PPM that follows was rejected: " + what2);
      string d2 = pic_diff(got2, expect2, true);
      if (!d2.empty()) fail("load/next_file_in_stream_differs", short_kind(enc.kind), "after loading a " + enc.kind + " file the stream is not positioned at its end: the PPM that follows decodes wrongly: " + d2);
      break;
    }
    case 5: { // the stream is a pipe: no seeking, no telling, pieces of any size
      count("arm.pipe");
      mark_nontrivial();
      std::vector<int> script;
      unsigned n = choose(40, "pipe.n");
      for (unsigned i = 0; i < n; i++) script.push_back(1 + choose(4096, "pipe.len"));
      set_context("load/" + enc.kind + "/pipe");
      g_load_by_name = false;
      g_load_from_pipe = true;
      LoadResult r = attempt_load(enc.bytes, script);
      g_load_from_pipe = false;
      VS_FAULT("unseekable_stream");
      if (r.threw) fail("load/pipe_delivery_rejected", short_kind(enc.kind), "a valid " + enc.kind + " file read from a stream that cannot seek (a pipe) was rejected: " + r.what);
      string d = pic_diff(r.pic, reference, true);
      if (!d.empty()) fail("load/pipe_delivery_differs", short_kind(enc.kind), "a valid " + enc.kind + " file read from a stream that cannot seek (a pipe) decodes differently: " + d);
      break;
    }
    case 1: { // torn save / truncation: only a prefix became durable
      count("arm.torn");
      mark_nontrivial();
      bool thorough = !strcmp(tier(), "thorough");
      size_t n = enc.bytes.size();
      bool all = (thorough && n <= 4096 && choose(2, "torn.all")) || (!thorough && n <= 200 && choose(8, "torn.all") == 7);
      if (all) {
        VS_PROBE("torn_every_prefix_of_a_file");
        for (size_t cut = 0; cut < n; cut++) {
          judge_faulty(enc, reference, enc.bytes.substr(0, cut), {}, "truncation", cut);
          count("torn.prefixes_enumerated");
        }
        VS_FAULT("truncation");
        break;
      }
      unsigned k = 1 + choose(4, "torn.count");
      for (unsigned i = 0; i < k; i++) {
        size_t cut;
        unsigned how = choose(4, "torn.how");
        if (how == 0 && !enc.marks.empty()) {
          // at, just before or just after a structure boundary
          size_t m = enc.marks[choose(enc.marks.size(), "torn.mark")];
          int delta = (int)choose(3, "torn.delta") - 1;
          cut = (size_t)std::max<int64_t>(0, (int64_t)m + delta);
        } else if (how == 1) {
          cut = n - 1 - std::min<size_t>(n - 1, choose(8, "torn.tail"));
        } else if (how == 2) {
          cut = choose(std::min<size_t>(n, 160), "torn.head");
        } else {
          cut = choose_range(0, n - 1, "torn.any");
        }
        if (cut >= n) cut = n - 1;
        VS_FAULT("truncation");
        ev("torn", cut, n);
        judge_faulty(enc, reference, enc.bytes.substr(0, cut), {}, "truncation", cut);
      }
      break;
    }
    case 2: { // read error at a drawn read call
      count("arm.read_error");
      mark_nontrivial();
      std::vector<int> script;
      unsigned at = choose(6, "eio.at");
      for (unsigned i = 0; i < at; i++) script.push_back(choose(2, "eio.pre") ? 1 + choose(64, "eio.pre.len") : 0);
      script.push_back(-1);
      judge_faulty(enc, reference, enc.bytes, script, "read_error", (size_t)-1);
      break;
    }
    case 3: { // chunked delivery: result must equal the fault-free decode and must not throw
      count("arm.chunked");
      mark_nontrivial();
      std::vector<int> script;
      unsigned n = 4 + choose(60, "chunk.n");
      for (unsigned i = 0; i < n; i++) script.push_back(1 + choose(97, "chunk.len"));
      set_context("load/" + enc.kind + "/chunked");
      LoadResult r = attempt_load(enc.bytes, script);
      if (r.threw) fail("load/chunked_delivery_rejected", short_kind(enc.kind), "a valid " + enc.kind + " file delivered in small pieces was rejected: " + r.what);
      string d = pic_diff(r.pic, reference, true);
      if (!d.empty()) fail("load/chunked_delivery_differs", short_kind(enc.kind), "decode depends on how the bytes are delivered: " + d);
      break;
    }
    case 4: { // write fault during save(FILE*): whatever is durable is judged like a torn file
      if (!own) {
        count("arm.none");
        break;
      }
      count("arm.write_fault");
      mark_nontrivial();
      phosg::Image::Format fmt = container == 0 ? phosg::Image::Format::COLOR_PPM : phosg::Image::Format::WINDOWS_BITMAP;
      phosg::Image img = build_image(src);
      auto ino = std::make_shared<vfs::Inode>();
      ino->kind = vfs::Kind::REG;
      ino->capacity = choose_range(0, enc.bytes.size(), "wf.capacity"); // disk fills up at this size
      vfs::world().faults = vfs::Faults();
      vfs::world().faults.short_write = (uint32_t)pick({0, 4, 2}, "wf.short");
      set_context("save/" + enc.kind + "/full_disk");
      bool save_threw = false;
      int rc = 0;
      if (choose(3, "wf.by_name") == 2) {
        // the library opens (and must close) the file itself, also when the disk fills up under it
        vfs::mkdir_p("/sim/pics");
        string path = "/sim/pics/full.img";
        auto slot = vfs::mkfile(path, "");
        slot->capacity = ino->capacity;
        ino = slot;
        try {
          img.save(path, fmt);
        } catch (const std::exception&) {
          save_threw = true;
        }
        if (vfs::open_fd_count()) {
          vfs::world().faults = vfs::Faults();
          fail("save/file_left_open", save_threw ? "by_name/failed_save" : "by_name/successful_save", string("Image::save(filename) left the file open after ") + (save_threw ? "a failed save (disk full)" : "a save"));
        }
        // by name, the library's own fclose decides whether a late write error is seen: a short file with no
        // exception is a silent loss only if the data never reached the disk although fclose succeeded,
        // which the library cannot know without checking fclose - not demanded by C06
        rc = save_threw ? 0 : -1;
        VS_PROBE("save_by_filename_on_full_disk");
      } else {
        FILE* f = vfs::fopen_inode(ino, "w", nullptr, true);
        try {
          img.save(f, fmt);
        } catch (const std::exception&) {
          save_threw = true;
        }
        rc = fclose(f);
      }
      vfs::world().faults = vfs::Faults();
      ev("write_fault", ino->data.size(), enc.bytes.size(), save_threw);
      // save() is const: whether it succeeded or not, the image is what it was
      {
        string again;
        try {
          again = img.save(fmt);
        } catch (const std::exception& e) {
          fail("save/threw", short_kind(enc.kind) + "/after_failed_save", string("Image::save(Format) threw after an earlier save of the same image had hit a full disk: ") + e.what());
        }
        if (again != enc.bytes && !judge_alternative_encoding(again, container, enc.expect).empty())
          fail("save/image_changed_by_failed_save", short_kind(enc.kind), "after a save that hit a full disk, saving the same (const) image again gives a different picture: the failed save modified the image");
      }
      if (ino->data.size() < enc.bytes.size() && !save_threw && rc == 0) {
        fail("save/short_file_reported_as_success", short_kind(enc.kind), "save(FILE*) and fclose reported success but only " + std::to_string(ino->data.size()) + " of " + std::to_string(enc.bytes.size()) + " bytes are on disk");
      }
      if (enc.bytes.compare(0, ino->data.size(), ino->data) != 0) {
        // not a prefix: stdio re-ordering we do not model; no verdict
        VS_PROBE("write_fault_result_not_a_prefix");
        break;
      }
      if (ino->data.size() < enc.bytes.size()) {
        VS_PROBE("save_hit_full_disk");
        judge_faulty(enc, reference, ino->data, {}, "torn_by_full_disk", ino->data.size());
      }
      break;
    }
  }
  set_context("");
}

extern "C" int __sanitizer_install_malloc_and_free_hooks(void (*)(const volatile void*, size_t), void (*)(const volatile void*)) __attribute__((weak));

static void process_init() {
  // (absent only in the diagnostic coverage build, which has no sanitizer runtime: the leak oracle is inert there)
  if (__sanitizer_install_malloc_and_free_hooks) __sanitizer_install_malloc_and_free_hooks(on_malloc, on_free);
}

int main(int argc, char** argv) {
  Engine e;
  e.property = "C06";
  e.name = "sim-image";
  e.run = run;
  e.process_init = process_init;
  e.quick_runs = 120000;
  e.thorough_runs = 2000000;
  e.quick_cap_s = 150;
  e.thorough_cap_s = 1700;
  e.rule =
      "one run = one generated picture (1..64 x 1..64, alpha on/off, 8/16/32/64-bit channels, six content generators) in one container (own PPM/BMP/PNG writer or a "
      "foreign P5/P6/P7/BMP variant from the harness's independent encoders) put on a simulated disk, then one fault arm (none / torn write or truncation at drawn or all "
      "prefix lengths / read error at a drawn read call / chunked delivery / disk full during save / stream that cannot seek / a second thread saving and loading another image while the call is inside "
      "its k-th read or write), under a drawn stdio buffering mode and, one run in six, a global C++ locale that groups digits; distinct = distinct event-log hash (picture parameters, file bytes, "
      "every simulated read/seek/write with its result); non-trivial = a fault arm other than 'none' was taken";
  e.assumptions = {
      "foreign files with samples wider than 8 bits are written in host byte order, the convention phosg itself uses for wide PPM (the netpbm standard says big-endian; phosg does not implement that and the property's own-format clause depends on the host-order convention)",
      "PNM comments (# ...) and the 40-byte-header BMP with trailing masks are not generated (not presented as supported variants)",
      "only truncation/torn writes, read errors, chunking and full disk are injected; bit flips or hostile headers are outside C06",
      "the leak oracle counts heap blocks allocated by the code under test inside the load window and still live when it closes, confirmed by a second identical load",
      "zlib's inflate is trusted for the PNG validity check; CRC-32 is an own bitwise implementation",
      "the second thread is a real thread that runs only while the first is parked at the entry of a simulated read()/write(); switches inside the library's own statements are not produced (distinct objects are used, so only state shared behind the API matters)"};
  e.components = {{"phosg Image.cc (load, save_helper, save(FILE*), save(Format), read_pixel/write_pixel), Filesystem.cc (freadx, fwritex, fgets)", "real code from the repository working tree"},
      {"glibc stdio, zlib", "real"},
      {"disk / file", "stub: simulated inode behind fopencookie (vsim/vfs.cc): durable prefix, scripted read sizes and EIO, capacity (full disk), short writes"},
      {"second caller thread", "real thread, released and joined by the simulator inside the first thread's k-th stream call (k from the tape)"},
      {"PNG/BMP/PPM reference decoders and foreign-file encoders", "harness code in engines/sim_image.cc sharing no code with phosg"}};
  e.expected_probes = {"independent_decode_checked", "width_not_multiple_of_4", "grayscale_input", "bmp_bitfields_input", "bmp_top_down_input", "torn_every_prefix_of_a_file", "save_hit_full_disk", "saved_by_filename", "loaded_by_filename", "largest_picture_64x64", "faulty_file_loaded_by_filename", "image_move_assigned", "image_copy_assigned", "save_by_filename_on_full_disk", "faulty_file_loaded_from_pipe", "two_threads_save_one_image"};
  e.expected_faults = {"truncation", "EIO@read", "short_read", "short_write", "ENOSPC@capacity", "unseekable_stream", "global_locale_groups_digits", "second_thread_inside_io_call", "EINTR@read(transient)", "second_file_follows_in_stream"};
  return driver_main(argc, argv, e);
}
