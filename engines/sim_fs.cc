// sim-fs: C14 — file, stream, directory and poll layer of phosg on a simulated kernel.
// Real: every phosg function named below (Filesystem.cc/.hh from the repository working tree).
// Stub: the kernel side (vfs.cc) — contents, chunking, errors and ordering are tape decisions.
#include <errno.h>
#include <fcntl.h>
#include <poll.h>
#include <string.h>
#include <unistd.h>

#include <map>
#include <optional>
#include <set>
#include <string>
#include <thread>
#include <vector>

#include "Filesystem.hh"

#include "vfs.hh"
#include "vsim.hh"

extern "C" int __real_close(int);
extern "C" ssize_t __real_write(int, const void*, size_t);

using namespace vsim;
using std::string;

// ------------------------------------------------------------------ generators

static string gen_content(size_t n, uint64_t cseed) {
  // position dependent, contains NUL, '\n' and 0xFF; any shift, gap or padding changes it
  string s(n, '\0');
  uint64_t x = 0;
  for (size_t i = 0; i < n; i++) {
    if ((i & 7) == 0) x = mix64(cseed * 0x100000001B3ULL + (i >> 3));
    uint8_t b = (uint8_t)(x >> ((i & 7) * 8));
    if ((b & 0x3F) == 0x3F) b = (b & 0x40) ? 0x00 : ((b & 0x80) ? '\n' : 0xFF);
    s[i] = (char)b;
  }
  return s;
}

static size_t draw_size(const char* site) {
  switch (choose(8, site)) {
    case 0: return choose(4, "size.tiny");
    case 1: return 4 + choose(300, "size.small");
    case 2: return 250 + choose(12, "size.256");
    case 3: return 506 + choose(12, "size.512");
    case 4: return 16380 + choose(10, "size.16k");
    case 5: return 32764 + choose(10, "size.32k");
    case 6: return 1000 + choose(40000, "size.mid");
    default: return choose_range(0, 200 * 1024, "size.big");
  }
}

static void draw_faults(bool reads, bool writes) {
  vfs::Faults& f = vfs::world().faults;
  f = vfs::Faults();
  if (choose(4, "faults.any") == 0) {
    count("runs_fault_free");
    return;
  }
  count("runs_with_fault_plan");
  auto den = [](const char* site) -> uint32_t { return (uint32_t)pick({0, 64, 16, 4}, site); };
  if (reads) {
    f.short_read = den("f.short_read");
    f.eio = den("f.eio");
    f.eintr = den("f.eintr");
  }
  f.eintr_close = den("f.eintr_close");
  if (writes) {
    f.short_write = den("f.short_write");
    f.enospc = den("f.enospc");
    if (!reads) f.eintr = den("f.eintr");
  }
}

static string describe_diff(const string& got, const string& want) {
  size_t i = 0;
  while (i < got.size() && i < want.size() && got[i] == want[i]) i++;
  char buf[160];
  snprintf(buf, sizeof(buf), "got %zu bytes, expected %zu bytes, first difference at offset %zu", got.size(), want.size(), i);
  return buf;
}

// returns "truncated" | "padded" | "wrong_bytes"
static const char* diff_kind(const string& got, const string& want) {
  if (got.size() < want.size() && !want.compare(0, got.size(), got)) return "truncated";
  if (got.size() > want.size() && !got.compare(0, want.size(), want)) return "padded";
  return "wrong_bytes";
}

static void check_budget(const char* api) {
  if (vfs::world().budget_exceeded) fail(string(api) + "/no_progress", "call_budget", "the call issued more than 2,000,000 kernel calls without finishing (livelock)");
}

// ------------------------------------------------------------------ scenario A: streams

namespace {
struct __attribute__((packed)) Odd7 {
  uint8_t b[7];
};
} // namespace

// Another thread of the program reads a different descriptor to its end while the call under test is parked at
// the return of its k-th read() (data delivered, not yet looked at). A real thread, released and joined by the
// simulator: the interleaving is the tape's.
static struct SecondReader {
  int fd = -1;
  string want;
  unsigned fire_at = 0, returns = 0;
  bool ran = false;
  string failure;
} g_second;

static void second_reader_hook() {
  SecondReader& S = g_second;
  if (S.ran || ++S.returns < S.fire_at) return;
  S.ran = true;
  vfs::world().after_read_hook = nullptr;
  vfs::Faults saved = vfs::world().faults;
  vfs::world().faults = vfs::Faults();
  vfs::Calls saved_calls = vfs::world().calls;
  ev("second_reader.runs", S.returns);
  std::thread t([&S]() {
    try {
      string r = phosg::read_all(S.fd);
      if (r != S.want) S.failure = "its read_all(fd) on its own descriptor: " + describe_diff(r, S.want);
    } catch (const std::exception& e) {
      S.failure = string("its read_all(fd) on its own, healthy descriptor threw: ") + e.what();
    }
  });
  t.join();
  vfs::world().faults = saved;
  vfs::world().calls = saved_calls;
  VS_FAULT("second_thread_reads_another_fd");
}

static void scen_stream_fd() {
  count("scenario.stream_fd");
  size_t size = draw_size("A.size");
  string D = gen_content(size, choose(1 << 16, "A.content"));
  int chunk_mode = choose(3, "A.chunk_mode");
  size_t chunk = pick({4096, 1, 2, 7, 100, 255, 256, 257, 16383, 16384, 16385, 65536}, "A.chunk");
  draw_faults(true, false);
  // the descriptor is a pipe-like stream or (one time in four) a regular file opened by path; short
  // reads are rarer on regular files but just as legal (signals, network and FUSE file systems)
  bool regular = choose(4, "A.regular") == 3;
  int fd;
  if (regular) {
    vfs::mkfile("/sim/data/input.bin", D);
    fd = open("/sim/data/input.bin", O_RDONLY);
    if (!vfs::world().faults.short_read) vfs::world().faults.short_read = (uint32_t)pick({0, 2, 8}, "A.regular.short");
    VS_PROBE("read_helpers_on_regular_file");
  } else {
    // a pipe-like stream; one in six is non-blocking with a writer that is sometimes not ready: read()
    // then fails with EAGAIN, which means "more will come", never "end of data"
    bool nonblocking = choose(6, "A.nonblocking") == 5;
    fd = vfs::open_stream_fd(D, chunk_mode, chunk, nonblocking);
    if (nonblocking) vfs::world().faults.eagain = (uint32_t)pick({4, 2, 16}, "A.eagain");
  }
  g_second = SecondReader();
  if (choose(8, "A.second_reader") == 7) {
    g_second.want = gen_content(pick({3000, 1, 100, 16384, 20000}, "A.second_reader.size"), 83);
    g_second.fd = vfs::open_stream_fd(g_second.want, 1, 4096);
    g_second.fire_at = 1 + choose(4, "A.second_reader.at");
    vfs::world().after_read_hook = second_reader_hook;
  }
  vfs::OpenFile* of = vfs::fd_entry(fd);
  if (chunk_mode) mark_nontrivial();
  note(string(regular ? "regular file" : "stream") + " fd over " + std::to_string(size) + " bytes, chunk_mode=" + std::to_string(chunk_mode) + " chunk=" + std::to_string(chunk));
  unsigned nops = 1 + choose(4, "A.nops");
  for (unsigned op_i = 0; op_i < nops; op_i++) {
    size_t before = of->pos;
    string rem = D.substr(before);
    vfs::calls_reset();
    const vfs::Calls& c = vfs::world().calls;
    unsigned op = choose(5, "A.op");
    bool threw = false;
    string what;
    switch (op) {
      case 0: { // read_all: must loop to EOF
        set_context("read_all(fd)");
        ev("op.read_all_fd", before);
        string r;
        try {
          r = phosg::read_all(fd);
        } catch (const std::exception& e) {
          threw = true;
          what = e.what();
        }
        check_budget("read_all_fd");
        if (!threw) {
          hash_bytes(r.data(), r.size());
          if (r != rem) {
            string cause = c.errors ? "error_injected" : (c.short_reads ? "chunked_delivery" : "plain");
            if (c.short_reads) VS_PROBE("read_all_fd.saw_short_read");
            fail(string("read_all_fd/") + diff_kind(r, rem), cause,
                "read_all(fd) returned normally but not the remaining stream: " + describe_diff(r, rem) +
                    " (" + std::to_string(c.reads) + " read calls, " + std::to_string(c.short_reads) + " short, " + std::to_string(c.errors) + " injected errors)");
          }
          if (c.short_reads) VS_PROBE("read_all_fd.saw_short_read");
          if (rem.size() > 16384) VS_PROBE("read_all_fd.crossed_16k_block");
        } else if (!c.errors) {
          fail("read_all_fd/threw_without_fault", "chunking_only", "read_all(fd) threw '" + what + "' although no error was injected (only chunked delivery)");
        }
        break;
      }
      case 1: { // read(fd, n): clamping form
        size_t n = choose(2, "A.n.kind") ? draw_size("A.n") : rem.size() + choose(3, "A.n.extra");
        set_context("read(fd,n)");
        ev("op.read_fd", before, n);
        string r;
        try {
          r = phosg::read(fd, n);
        } catch (const std::exception& e) {
          threw = true;
          what = e.what();
        }
        if (!threw) {
          hash_bytes(r.data(), r.size());
          size_t delivered = of->pos - before;
          if (r.size() > n || r != D.substr(before, delivered)) {
            fail("read_fd/mismatch", "clamping", "read(fd," + std::to_string(n) + ") returned " + std::to_string(r.size()) + " bytes but the descriptor delivered " +
                    std::to_string(delivered) + "; " + describe_diff(r, D.substr(before, delivered)));
          }
        } else if (!c.errors) {
          fail("read_fd/threw_without_fault", "clamping", "read(fd,n) threw '" + what + "' without an injected error");
        }
        break;
      }
      case 2: { // readx(fd, n): exact or throw
        size_t n = choose(4, "A.nx.kind") == 0 ? rem.size() + 1 + choose(3, "A.nx.extra") : (rem.empty() ? 0 : choose_range(0, rem.size(), "A.nx"));
        set_context("readx(fd,n)");
        ev("op.readx_fd", before, n);
        string r;
        try {
          r = phosg::readx(fd, n);
        } catch (const std::exception& e) {
          threw = true;
          what = e.what();
        }
        if (!threw) {
          hash_bytes(r.data(), r.size());
          if (n > rem.size() || r != D.substr(before, n)) {
            fail(string("readx_fd/") + diff_kind(r, D.substr(before, n)), c.short_reads ? "short_read" : "plain",
                "readx(fd," + std::to_string(n) + ") returned normally with wrong contents: " + describe_diff(r, D.substr(before, n)));
          }
          if (of->pos - before != n) {
            fail("readx_fd/over_read", "cursor", "readx(fd," + std::to_string(n) + ") consumed " + std::to_string(of->pos - before) + " bytes from the descriptor");
          }
        } else {
          VS_PROBE("readx.threw_on_short");
          if (!c.errors && !c.short_reads && n <= rem.size()) {
            fail("readx_fd/threw_without_cause", "plain", "readx(fd,n) threw '" + what + "' although the descriptor delivered all " + std::to_string(n) + " bytes at once");
          }
        }
        break;
      }
      case 3: { // readx<T>
        set_context("readx<T>(fd)");
        bool odd = choose(2, "A.T");
        size_t n = odd ? sizeof(Odd7) : sizeof(uint32_t);
        ev("op.readx_T", before, n);
        string r;
        try {
          if (odd) {
            Odd7 v = phosg::readx<Odd7>(fd);
            r.assign((const char*)&v, sizeof(v));
          } else {
            uint32_t v = phosg::readx<uint32_t>(fd);
            r.assign((const char*)&v, sizeof(v));
          }
        } catch (const std::exception& e) {
          threw = true;
          what = e.what();
        }
        if (!threw) {
          if (n > rem.size() || r != D.substr(before, n)) {
            fail("readx_T/wrong_bytes", "plain", "readx<T>(fd) returned an object that is not the next " + std::to_string(n) + " bytes of the stream");
          }
        } else if (!c.errors && !c.short_reads && n <= rem.size()) {
          fail("readx_T/threw_without_cause", "plain", "readx<T>(fd) threw '" + what + "' although the bytes were delivered");
        }
        break;
      }
      case 4: { // a second read_all after EOF must be empty (cursor carry-over)
        if (before < D.size()) {
          // skip to keep the op meaningful: consume with read() first
          break;
        }
        set_context("read_all(fd)@eof");
        string r;
        try {
          r = phosg::read_all(fd);
        } catch (const std::exception& e) {
          threw = true;
          what = e.what();
        }
        if (!threw && !r.empty()) fail("read_all_fd/bytes_after_eof", "eof", "read_all(fd) at EOF returned " + std::to_string(r.size()) + " bytes");
        if (threw && !c.errors) fail("read_all_fd/threw_without_fault", "eof", "read_all(fd) at EOF threw '" + what + "'");
        break;
      }
    }
    if (failed()) break;
  }
  vfs::world().after_read_hook = nullptr;
  if (g_second.ran && !g_second.failure.empty() && !failed()) {
    fail("read_all_fd/second_reader_disturbed", "second_thread", "a second thread read another descriptor to its end while this call was parked at the return of a read(): " + g_second.failure);
  }
  if (g_second.fd >= 0) close(g_second.fd);
  set_context("");
}

// The same read-to-end / exact-size helpers on a REAL kernel pipe whose writer is staggered by the
// simulator (C14: "real pipes with staggered writers").
static void scen_real_pipe() {
  count("scenario.real_pipe");
  size_t size = draw_size("P.size");
  if (size > 150000) size = 150000;
  string D = gen_content(size, choose(1 << 16, "P.content"));
  size_t max_chunk = pick({4096, 1, 7, 100, 255, 256, 257, 16383, 16384, 16385, 60000}, "P.chunk");
  int fd = vfs::open_real_pipe_stream(D, max_chunk);
  mark_nontrivial();
  note("real pipe fed with " + std::to_string(size) + " bytes in pieces of at most " + std::to_string(max_chunk));
  unsigned op = choose(3, "P.op");
  vfs::calls_reset();
  bool threw = false;
  string what, r;
  if (op == 0) {
    set_context("read_all(fd)/real_pipe");
    ev("op.read_all_pipe", size);
    try {
      r = phosg::read_all(fd);
    } catch (const std::exception& e) {
      threw = true;
      what = e.what();
    }
    check_budget("read_all_fd");
    if (threw) fail("read_all_fd/threw_without_fault", "real_pipe", "read_all(fd) on a pipe with a slow writer threw '" + what + "'");
    hash_bytes(r.data(), r.size());
    if (r != D) fail(string("read_all_fd/") + diff_kind(r, D), "real_pipe", "read_all(fd) on a real pipe with a staggered writer: " + describe_diff(r, D));
    VS_PROBE("read_all_fd.real_pipe");
  } else if (op == 1) {
    // readx of everything: exact or throw (a slow writer may legitimately make it throw)
    set_context("readx(fd,n)/real_pipe");
    ev("op.readx_pipe", size);
    try {
      r = phosg::readx(fd, size);
    } catch (const std::exception& e) {
      threw = true;
      what = e.what();
    }
    if (!threw && r != D) fail(string("readx_fd/") + diff_kind(r, D), "real_pipe", "readx(fd,n) returned normally with wrong contents on a real pipe: " + describe_diff(r, D));
  } else {
    // clamping reads until EOF: the pieces must add up
    set_context("read(fd,n)/real_pipe");
    ev("op.read_pipe", size);
    string all;
    for (size_t i = 0; i < size + 4; i++) {
      string piece;
      try {
        piece = phosg::read(fd, pick({4096, 1, 100, 65536}, "P.read.n"));
      } catch (const std::exception& e) {
        fail("read_fd/threw_without_fault", "real_pipe", string("read(fd,n) threw on a healthy pipe: ") + e.what());
      }
      if (piece.empty()) break;
      all += piece;
    }
    if (all != D) fail(string("read_fd/") + diff_kind(all, D), "real_pipe", "successive read(fd,n) calls on a real pipe do not add up to what the writer sent: " + describe_diff(all, D));
  }
  set_context("");
}

// The FILE* helpers on a stdio stream that sits on a REAL descriptor (fdopen over a kernel pipe, or a
// temporary regular file): fileno() is valid here, and glibc has usually read ahead, so the stream's position
// and the descriptor's position differ. Whatever the caller consumed through stdio before, read_all(FILE*)
// must return exactly the rest of the stream.
static void scen_real_FILE() {
  count("scenario.real_FILE");
  size_t size = draw_size("Q.size");
  if (size > 60000) size = 60000; // must fit the pipe without a reader
  string D = gen_content(size, choose(1 << 16, "Q.content"));
  for (auto& ch : D)
    if (ch == 0) ch = 'x';
  unsigned nl = choose(6, "Q.newlines");
  for (unsigned i = 0; i < nl && !D.empty(); i++) D[choose_range(0, D.size() - 1, "Q.newline.at")] = '\n';
  bool regular = choose(3, "Q.kind") == 2;
  FILE* f = nullptr;
  if (regular) {
    f = tmpfile();
    if (!f) harness_bug("tmpfile failed");
    if (!D.empty() && ::fwrite(D.data(), 1, D.size(), f) != D.size()) harness_bug("tmpfile fill failed");
    rewind(f);
  } else {
    int pfd[2];
    if (pipe(pfd)) harness_bug("pipe failed");
    size_t off = 0;
    while (off < D.size()) {
      ssize_t w = __real_write(pfd[1], D.data() + off, D.size() - off);
      if (w <= 0) harness_bug("pipe fill failed");
      off += w;
    }
    __real_close(pfd[1]);
    f = fdopen(pfd[0], "r");
    if (!f) harness_bug("fdopen failed");
  }
  size_t mode = pick({0, 0, 1, 16, 255, 4096}, "Q.buffering");
  if (mode == 1) setvbuf(f, nullptr, _IONBF, 0);
  else if (mode > 1) setvbuf(f, nullptr, _IOFBF, mode);
  mark_nontrivial();
  note(string("stdio stream over a real ") + (regular ? "temporary file" : "pipe") + " holding " + std::to_string(size) + " bytes, buffering mode " + std::to_string(mode));
  size_t pos = 0;
  unsigned npre = choose(4, "Q.npre");
  for (unsigned i = 0; i < npre && !failed(); i++) {
    string rem = D.substr(pos);
    unsigned op = choose(3, "Q.pre.op");
    try {
      if (op == 0) {
        set_context("fgets(FILE*)/real_fd");
        ev("op.fgets_real", pos);
        string line = phosg::fgets(f);
        size_t e = rem.find('\n');
        string want = e == string::npos ? rem : rem.substr(0, e + 1);
        if (line != want) fail(string("fgets/") + diff_kind(line, want), "real_fd", "fgets on a stdio stream over a real descriptor: " + describe_diff(line, want));
        pos += line.size();
      } else if (op == 1) {
        size_t n = choose(2, "Q.pre.n.kind") ? draw_size("Q.pre.n") : 1 + choose(16, "Q.pre.n.small");
        set_context("fread(FILE*,n)/real_fd");
        ev("op.fread_real", pos, n);
        string r = phosg::fread(f, n);
        string want = rem.substr(0, n);
        if (r != want) fail(string("fread/") + diff_kind(r, want), "real_fd", "fread on a stdio stream over a real descriptor: " + describe_diff(r, want));
        pos += r.size();
      } else {
        size_t n = rem.empty() ? 0 : choose_range(0, std::min<size_t>(rem.size(), 300), "Q.pre.nx");
        set_context("freadx(FILE*,n)/real_fd");
        ev("op.freadx_real", pos, n);
        string r = phosg::freadx(f, n);
        if (r != rem.substr(0, n)) fail(string("freadx/") + diff_kind(r, rem.substr(0, n)), "real_fd", "freadx on a stdio stream over a real descriptor: " + describe_diff(r, rem.substr(0, n)));
        pos += r.size();
      }
    } catch (const std::exception& e) {
      fail("read_helpers/threw_without_fault", "real_fd", string("a FILE* helper threw on a healthy stdio stream over a real descriptor: ") + e.what());
    }
  }
  if (!failed()) {
    string rem = D.substr(pos);
    set_context("read_all(FILE*)/real_fd");
    ev("op.read_all_real", pos);
    string r;
    bool threw = false;
    try {
      r = phosg::read_all(f);
    } catch (const std::exception& e) {
      threw = true;
      fail("read_all_file/threw_without_fault", "real_fd", string("read_all(FILE*) threw on a healthy stdio stream over a real descriptor: ") + e.what());
    }
    if (!threw) {
      hash_bytes(r.data(), r.size());
      if (r != rem) {
        fail(string("read_all_file/") + diff_kind(r, rem), pos ? "after_buffered_reads" : "real_fd",
            "read_all(FILE*) after " + std::to_string(pos) + " bytes were consumed through stdio did not return the rest of the stream: " + describe_diff(r, rem));
      }
      if (pos && !rem.empty()) VS_PROBE("read_all_file.real_fd_buffered");
    }
  }
  fclose(f);
  set_context("");
}

static void scen_stream_file() {
  count("scenario.stream_FILE");
  size_t size = draw_size("S.size");
  string D = gen_content(size, choose(1 << 16, "S.content"));
  int chunk_mode = choose(3, "S.chunk_mode");
  size_t chunk = pick({4096, 1, 2, 7, 100, 255, 256, 257, 16383, 16384, 16385, 65536}, "S.chunk");
  draw_faults(true, false);
  auto ino = std::make_shared<vfs::Inode>();
  ino->kind = vfs::Kind::STREAM;
  ino->data = D;
  ino->chunk_mode = chunk_mode;
  ino->chunk = chunk;
  // what the FILE* sits on: usually a pipe-like stream; sometimes a seekable regular file - an ordinary one, one
  // whose size cannot be asked for (st_size and SEEK_END are 0, as for /proc files), or one another process
  // appends to right after the first size query
  unsigned file_kind = choose(6, "S.file_kind");
  if (file_kind >= 3) {
    ino->kind = vfs::Kind::REG;
    if (file_kind == 4) {
      ino->sizeless = true;
      VS_PROBE("FILE_on_sizeless_file");
    }
    if (file_kind == 5) ino->appended_after_size_query = gen_content(1 + choose(40000, "S.appended"), 81);
  }
  int cfd = -1;
  FILE* f = vfs::fopen_inode(ino, "r", &cfd, file_kind >= 3);
  if (chunk_mode) mark_nontrivial();
  note("FILE* over " + std::to_string(size) + " bytes, chunk_mode=" + std::to_string(chunk_mode) + " chunk=" + std::to_string(chunk) + " file_kind=" + std::to_string(file_kind));
  size_t pos = 0; // bytes handed to the caller so far
  bool stream_had_error = false;
  unsigned nops = 1 + choose(4, "S.nops");
  for (unsigned op_i = 0; op_i < nops; op_i++) {
    string rem = D.substr(pos);
    vfs::calls_reset();
    const vfs::Calls& c = vfs::world().calls;
    unsigned op = choose(4, "S.op");
    bool threw = false;
    bool stop = false;
    string what;
    switch (op) {
      case 0: { // read_all(FILE*)
        set_context("read_all(FILE*)");
        ev("op.read_all_file", pos);
        string r;
        try {
          r = phosg::read_all(f);
        } catch (const std::exception& e) {
          threw = true;
          what = e.what();
        }
        check_budget("read_all_file");
        if (c.errors) VS_PROBE("read_all_file.error_mid_stream");
        if (ino->data.size() != D.size()) {
          // the file grew under the call (only if it asked for the size): everything up to the end of file it
          // read to is the expected result
          D = ino->data;
          rem = D.substr(pos);
        }
        if (!threw) {
          hash_bytes(r.data(), r.size());
          if (r != rem) {
            string cause = c.errors ? "error_swallowed" : (c.short_reads ? "chunked_delivery" : "plain");
            fail(string("read_all_file/") + diff_kind(r, rem), cause,
                "read_all(FILE*) returned normally but not the remaining stream: " + describe_diff(r, rem) + " (" + std::to_string(c.errors) +
                    " injected read errors; a stream error must not look like end of file)");
          }
          if (rem.size() > 16384) VS_PROBE("read_all_file.crossed_16k_block");
          pos = D.size();
        } else {
          if (!c.errors && !stream_had_error) fail("read_all_file/threw_without_fault", "chunking_only", "read_all(FILE*) threw '" + what + "' although no error was injected");
          stop = true;
        }
        break;
      }
      case 1: { // fread(f, n): clamping
        size_t n = choose(2, "S.n.kind") ? draw_size("S.n") : rem.size() + choose(3, "S.n.extra");
        set_context("fread(FILE*,n)");
        ev("op.fread", pos, n);
        string r;
        try {
          r = phosg::fread(f, n);
        } catch (const std::exception& e) {
          threw = true;
          what = e.what();
        }
        if (!threw) {
          hash_bytes(r.data(), r.size());
          if (r.size() > n || rem.compare(0, r.size(), r) != 0) {
            fail("fread/wrong_bytes", "clamping", "fread(FILE*," + std::to_string(n) + ") returned bytes that are not the next bytes of the stream: " + describe_diff(r, rem.substr(0, n)));
          }
          if (r.size() < n && r.size() < rem.size() && !c.errors) {
            fail("fread/short_without_cause", "clamping", "fread(FILE*," + std::to_string(n) + ") returned " + std::to_string(r.size()) + " bytes before EOF and without a stream error");
          }
          pos += r.size();
        } else {
          if (!c.errors && !stream_had_error) fail("fread/threw_without_fault", "clamping", "fread(FILE*,n) threw '" + what + "'");
          stop = true;
        }
        break;
      }
      case 2: { // freadx(f, n)
        size_t n = choose(4, "S.nx.kind") == 0 ? rem.size() + 1 + choose(3, "S.nx.extra") : (rem.empty() ? 0 : choose_range(0, rem.size(), "S.nx"));
        set_context("freadx(FILE*,n)");
        ev("op.freadx", pos, n);
        string r;
        try {
          r = phosg::freadx(f, n);
        } catch (const std::exception& e) {
          threw = true;
          what = e.what();
        }
        if (!threw) {
          hash_bytes(r.data(), r.size());
          if (n > rem.size() || r != D.substr(pos, n)) {
            fail(string("freadx/") + diff_kind(r, D.substr(pos, n)), c.errors ? "error_swallowed" : "plain",
                "freadx(FILE*," + std::to_string(n) + ") returned normally with wrong contents: " + describe_diff(r, D.substr(pos, n)));
          }
          pos += n;
        } else {
          if (!c.errors && !stream_had_error && n <= rem.size()) {
            fail("freadx/threw_without_cause", "plain", "freadx(FILE*,n) threw '" + what + "' although " + std::to_string(rem.size()) + " bytes were available");
          }
          stop = true;
        }
        break;
      }
      case 3: { // fgetcx
        set_context("fgetcx(FILE*)");
        ev("op.fgetcx", pos);
        uint8_t b = 0;
        try {
          b = phosg::fgetcx(f);
        } catch (const std::exception& e) {
          threw = true;
          what = e.what();
        }
        if (!threw) {
          if (rem.empty() || (uint8_t)rem[0] != b) fail("fgetcx/wrong_byte", "plain", "fgetcx returned a byte that is not the next byte of the stream");
          pos += 1;
        } else {
          if (!rem.empty() && !c.errors && !stream_had_error) fail("fgetcx/threw_without_cause", "plain", "fgetcx threw '" + what + "' before EOF without a stream error");
          stop = true;
        }
        break;
      }
    }
    stream_had_error |= c.errors > 0;
    if (failed() || stop) break;
  }
  set_context("");
  fclose(f);
}

// ------------------------------------------------------------------ scenario C: lines

static void scen_lines() {
  count("scenario.lines");
  unsigned nlines = 1 + choose(5, "C.nlines");
  std::vector<string> lines;
  string text;
  size_t longest = 0;
  uint64_t cseed = choose(1 << 16, "C.content");
  for (unsigned i = 0; i < nlines; i++) {
    size_t len;
    switch (choose(6, "C.len.kind")) {
      case 0: len = choose(4, "C.len.tiny"); break;
      case 1: len = 250 + choose(12, "C.len.256"); break;
      case 2: len = 505 + choose(12, "C.len.512"); break;
      case 3: len = 760 + choose(12, "C.len.768"); break;
      case 4: len = choose(1101, "C.len.any"); break;
      default: len = 4 + choose(120, "C.len.small"); break;
    }
    string l(len, 'x');
    for (size_t j = 0; j < len; j++) {
      uint8_t b = (uint8_t)(mix64(cseed + i * 7919 + j / 8) >> ((j & 7) * 8));
      if (b == 0 || b == '\n') b = 0x80 | (j & 0x7F);
      l[j] = (char)b;
    }
    bool last = (i + 1 == nlines);
    bool newline = !last || choose(2, "C.final_newline") == 0;
    if (newline) l += '\n';
    if (l.empty()) continue; // an empty final line without newline is no line at all
    longest = std::max(longest, l.size());
    lines.push_back(l);
    text += l;
  }
  int chunk_mode = choose(3, "C.chunk_mode");
  size_t chunk = pick({4096, 1, 2, 7, 100, 255, 256, 257}, "C.chunk");
  draw_faults(true, false);
  auto ino = std::make_shared<vfs::Inode>();
  ino->kind = choose(2, "C.kind") ? vfs::Kind::REG : vfs::Kind::STREAM;
  ino->data = text;
  ino->chunk_mode = chunk_mode;
  ino->chunk = chunk;
  FILE* f = vfs::fopen_inode(ino, "r", nullptr, ino->kind == vfs::Kind::REG);
  if (longest > 255) {
    mark_nontrivial();
    VS_PROBE("fgets.line_longer_than_block");
  }
  if (longest > 510) VS_PROBE("fgets.line_longer_than_two_blocks");
  for (auto& l : lines)
    if (l.size() == 255 || l.size() == 256) VS_PROBE("fgets.line_exactly_block");
  note("text of " + std::to_string(lines.size()) + " lines, longest " + std::to_string(longest));
  vfs::calls_reset();
  const vfs::Calls& c = vfs::world().calls;
  std::vector<string> got;
  bool threw = false;
  string what;
  set_context("fgets(FILE*)");
  string key = longest > 255 ? "line_longer_than_255" : "short_lines";
  for (size_t i = 0; i < lines.size() + 8; i++) {
    string r;
    try {
      r = phosg::fgets(f);
    } catch (const std::exception& e) {
      threw = true;
      what = e.what();
      break;
    }
    ev("fgets", r.size());
    if (r.empty()) break;
    got.push_back(r);
  }
  check_budget("fgets");
  fclose(f);
  set_context("");
  if (threw) {
    if (!c.errors) fail("fgets/threw_without_fault", key, "fgets threw '" + what + "' although no stream error was injected");
    return;
  }
  if (got != lines) {
    string joined;
    for (auto& g : got) joined += g;
    if (joined == text) {
      size_t i = 0;
      while (i < got.size() && i < lines.size() && got[i] == lines[i]) i++;
      fail("fgets/line_split", key,
          "fgets returned the text in the wrong pieces: call " + std::to_string(i) + " returned " + std::to_string(i < got.size() ? got[i].size() : 0) +
              " bytes of a line of " + std::to_string(i < lines.size() ? lines[i].size() : 0) + " bytes (a line must be returned whole, however long)");
    }
    fail(string("fgets/") + diff_kind(joined, text), c.errors ? "error_swallowed" : key, "the lines returned by fgets do not add up to the stream: " + describe_diff(joined, text));
  }
}

// ------------------------------------------------------------------ scenario B: whole files

namespace {
struct Obj {
  uint32_t a;
  uint8_t b[9];
  uint64_t c;
};
} // namespace

static void expect_no_fd_leak(const char* api) {
  if (vfs::open_fd_count() != 0) fail(string(api) + "/fd_leak", "leak", string(api) + " left " + std::to_string(vfs::open_fd_count()) + " descriptor(s) open");
  if (vfs::world().calls.double_close || vfs::world().calls.ebadf) fail(string(api) + "/double_close", "close", string(api) + " closed a descriptor twice or used a closed one");
}

// Another process replaces the file by rename() while load_file holds it open: the descriptor still names
// the OLD file, the path names the NEW one. Fires from the path-based stat()/lstat() wrappers, i.e. only
// if the code under test asks the path again after opening it.
static string g_replace_path, g_replace_content;
static unsigned g_replace_fired = 0;
static void replace_hook() {
  if (g_replace_fired || g_replace_path.empty()) return;
  bool is_open = false;
  for (auto& kv : vfs::world().fds)
    if (kv.second.is_open && kv.second.path == g_replace_path) is_open = true;
  if (!is_open) return;
  g_replace_fired++;
  vfs::mkfile(g_replace_path, g_replace_content);
  VS_FAULT("file_replaced_while_open");
  ev("race.rename_over", g_replace_content.size());
}

static void scen_files() {
  count("scenario.files");
  size_t size = draw_size("B.size");
  string D = gen_content(size, choose(1 << 16, "B.content"));
  string path = "/sim/data/file.bin";
  vfs::mkdir_p("/sim/data");
  unsigned preexisting = choose(4, "B.preexisting");
  if (preexisting == 1) vfs::mkfile(path, gen_content(size + 1 + choose(100, "B.pre.extra"), 77));
  if (preexisting == 2) vfs::mkfile(path, gen_content(size / 2, 78));
  if (preexisting == 3 && size >= 2) {
    // the file exists with the same size and the same beginning (a record whose later fields are being updated):
    // identical up to and including a NUL byte, different afterwards
    string old = D;
    size_t at = choose_range(0, size - 2, "B.pre.nul_at");
    old[at] = '\0';
    D[at] = '\0';
    for (size_t i = at + 1; i < size; i++) old[i] = (char)(D[i] ^ 0x5A);
    vfs::mkfile(path, old);
    VS_PROBE("save_file.same_size_file_exists");
  }
  draw_faults(true, true);
  unsigned variant = choose(4, "B.variant");
  vfs::calls_reset();
  const vfs::Calls& c = vfs::world().calls;
  bool threw = false;
  string what;
  if (variant <= 1) {
    // save_file / load_file on byte strings
    set_context("save_file");
    ev("op.save_file", size, preexisting);
    try {
      if (variant == 0) phosg::save_file(path, D);
      else phosg::save_file(path, D.data(), D.size());
    } catch (const std::exception& e) {
      threw = true;
      what = e.what();
    }
    auto ino = vfs::lookup(path);
    if (!threw) {
      if (!ino || ino->data != D) {
        fail(string("save_file/") + (ino ? diff_kind(ino->data, D) : "missing"), c.short_writes ? "short_write" : (preexisting ? "over_existing" : "plain"),
            "save_file returned normally but the file does not hold the data: " + (ino ? describe_diff(ino->data, D) : string("no file")));
      }
    } else {
      if (c.short_writes || c.errors) VS_PROBE("save_file.threw_on_write_fault");
      if (!c.errors && !c.short_writes) fail("save_file/threw_without_cause", "plain", "save_file threw '" + what + "' although every write succeeded in full");
    }
    expect_no_fd_leak("save_file");
    if (threw) return;
    vfs::calls_reset();
    set_context("load_file");
    ev("op.load_file", size);
    // sometimes another process truncates the file between load_file's fstat() and its read()
    if (choose(6, "B.truncate_race") == 5) vfs::world().faults.truncate_race = (uint32_t)pick({1, 2}, "B.truncate_race.rate");
    g_replace_fired = 0;
    g_replace_path.clear();
    if (choose(6, "B.rename_race") == 5) {
      g_replace_path = path;
      g_replace_content = gen_content(choose(2, "B.rename_race.longer") ? size + 1 + choose(5000, "B.rename_race.extra") : size / 2, 79);
      vfs::world().between_dir_calls = replace_hook;
    }
    string r;
    try {
      r = phosg::load_file(path);
    } catch (const std::exception& e) {
      threw = true;
      what = e.what();
    }
    vfs::world().faults.truncate_race = 0;
    vfs::world().between_dir_calls = nullptr;
    g_replace_path.clear();
    if (g_replace_fired) {
      // the call saw two files under one name: either file's complete contents or a throw are right, a
      // mixture (the old file cut or padded to the new file's size) is not
      if (!threw && r != D && r != g_replace_content) {
        fail(string("load_file/") + diff_kind(r, D), "replaced_while_open", "the file was replaced by rename while load_file had it open; load_file returned " + std::to_string(r.size()) +
                " bytes that are neither the old file (" + std::to_string(D.size()) + " bytes) nor the new one (" + std::to_string(g_replace_content.size()) + " bytes): " + describe_diff(r, D));
      }
      expect_no_fd_leak("load_file");
      set_context("");
      return;
    }
    if (c.truncations) {
      // the file changed under the call: throwing is fine, returning the file's present contents is fine,
      // returning bytes the file never held (padding) is not
      VS_PROBE("load_file.file_truncated_concurrently");
      auto now = vfs::lookup(path);
      if (!threw && now && r != now->data && r != D) {
        fail(string("load_file/") + diff_kind(r, now->data), "concurrent_truncate", "load_file returned " + std::to_string(r.size()) + " bytes after the file was truncated to " + std::to_string(now->data.size()) + " under it: " + describe_diff(r, now->data));
      }
      expect_no_fd_leak("load_file");
      set_context("");
      return;
    }
    if (!threw) {
      hash_bytes(r.data(), r.size());
      if (r != D) fail(string("load_file/") + diff_kind(r, D), c.short_reads ? "short_read" : (c.errors ? "error_swallowed" : "plain"), "load_file(save_file(d)) != d: " + describe_diff(r, D));
    } else {
      if (c.short_reads || c.errors) VS_PROBE("load_file.threw_on_read_fault");
      if (!c.errors && !c.short_reads) fail("load_file/threw_without_cause", "plain", "load_file threw '" + what + "' although the file was delivered in one piece");
    }
    expect_no_fd_leak("load_file");
  } else if (variant == 2) {
    // object file
    Obj o;
    memset(&o, 0, sizeof(o));
    o.a = choose(1u << 31, "B.obj.a");
    for (size_t i = 0; i < sizeof(o.b); i++) o.b[i] = 0xF0 + i;
    o.c = mix64(o.a);
    set_context("save_object_file");
    try {
      phosg::save_object_file(path, o);
    } catch (const std::exception& e) {
      threw = true;
      what = e.what();
    }
    auto ino = vfs::lookup(path);
    if (!threw) {
      if (!ino || ino->data.size() != sizeof(o) || memcmp(ino->data.data(), &o, sizeof(o))) fail("save_object_file/wrong_bytes", "plain", "save_object_file stored something other than the object");
    } else if (!c.errors && !c.short_writes) {
      fail("save_object_file/threw_without_cause", "plain", "save_object_file threw '" + what + "'");
    }
    expect_no_fd_leak("save_object_file");
    if (threw) return;
    bool oversize = choose(2, "B.obj.oversize");
    bool allow = choose(2, "B.obj.allow");
    if (oversize) ino->data += "extra";
    vfs::calls_reset();
    set_context("load_object_file");
    Obj back;
    memset(&back, 0, sizeof(back));
    try {
      back = phosg::load_object_file<Obj>(path, allow);
    } catch (const std::exception& e) {
      threw = true;
      what = e.what();
    }
    if (!threw) {
      if (memcmp(&back, &o, sizeof(o))) fail("load_object_file/wrong_bytes", "plain", "load_object_file returned a different object than was saved");
      if (oversize && !allow && !c.errors) fail("load_object_file/oversize_accepted", "plain", "load_object_file accepted a file larger than the object although allow_oversize was false");
    } else if (!c.errors && !c.short_reads && !(oversize && !allow)) {
      fail("load_object_file/threw_without_cause", "plain", "load_object_file threw '" + what + "'");
    }
    expect_no_fd_leak("load_object_file");
  } else {
    // vector file
    std::vector<uint32_t> v(size / 16);
    for (size_t i = 0; i < v.size(); i++) v[i] = (uint32_t)mix64(i + size);
    set_context("save_vector_file");
    try {
      phosg::save_vector_file(path, v);
    } catch (const std::exception& e) {
      threw = true;
      what = e.what();
    }
    auto ino = vfs::lookup(path);
    if (!threw) {
      if (!ino || ino->data.size() != v.size() * 4 || (!v.empty() && memcmp(ino->data.data(), v.data(), v.size() * 4))) fail("save_vector_file/wrong_bytes", "plain", "save_vector_file stored something other than the vector");
    } else if (!c.errors && !c.short_writes) {
      fail("save_vector_file/threw_without_cause", "plain", "save_vector_file threw '" + what + "'");
    }
    expect_no_fd_leak("save_vector_file");
    if (threw) return;
    unsigned extra = choose(4, "B.vec.extra"); // trailing partial item is ignored by contract
    ino->data.append(extra, 'Z');
    vfs::calls_reset();
    set_context("load_vector_file");
    std::vector<uint32_t> back;
    try {
      back = phosg::load_vector_file<uint32_t>(path);
    } catch (const std::exception& e) {
      threw = true;
      what = e.what();
    }
    if (!threw) {
      if (back != v) fail("load_vector_file/wrong_items", "plain", "load_vector_file returned different items than were saved");
    } else if (!c.errors && !c.short_reads) {
      fail("load_vector_file/threw_without_cause", "plain", "load_vector_file threw '" + what + "'");
    }
    expect_no_fd_leak("load_vector_file");
  }
  set_context("");
}

// ------------------------------------------------------------------ scenario G: exact-size writes, preadx

static void scen_exact_io() {
  count("scenario.exact_io");
  size_t base_size = draw_size("G.base");
  string base = gen_content(base_size, 5);
  string path = "/sim/data/target.bin";
  auto ino = vfs::mkfile(path, base);
  draw_faults(true, true);
  if (choose(8, "G.fulldisk") == 7) {
    ino->capacity = base_size + choose(64, "G.capacity");
    mark_nontrivial();
  }
  size_t n = draw_size("G.n");
  if (n > 70000) n = 70000;
  string D = gen_content(n, choose(1 << 16, "G.content"));
  vfs::calls_reset();
  const vfs::Calls& c = vfs::world().calls;
  unsigned op = choose(5, "G.op");
  bool threw = false;
  string what;
  switch (op) {
    case 0: { // writex appends at the cursor of a fresh O_WRONLY descriptor (offset 0)
      int fd = open(path.c_str(), O_WRONLY);
      set_context("writex(fd)");
      ev("op.writex", n);
      try {
        unsigned form = choose(3, "G.writex.form");
        if (form == 2) {
          // template form: an object of 21 bytes
          Obj o;
          memset(&o, 0x3C, sizeof(o));
          o.a = 0x01020304;
          D.assign((const char*)&o, sizeof(o));
          n = D.size();
          phosg::writex<Obj>(fd, o);
        } else if (form == 1) {
          phosg::writex(fd, D);
        } else {
          phosg::writex(fd, D.data(), D.size());
        }
      } catch (const std::exception& e) {
        threw = true;
        what = e.what();
      }
      string want = base;
      if (want.size() < n) want.resize(n);
      want.replace(0, n, D);
      if (!threw) {
        if (ino->data != want) fail(string("writex/") + diff_kind(ino->data, want), c.short_writes ? "short_write" : "plain", "writex returned normally but the file is wrong: " + describe_diff(ino->data, want));
      } else if (!c.errors && !c.short_writes) {
        fail("writex/threw_without_cause", "plain", "writex threw '" + what + "' although the write was complete");
      }
      close(fd);
      break;
    }
    case 1: { // pwritex at an offset
      size_t off = choose_range(0, base_size + 10, "G.off");
      int fd = open(path.c_str(), O_RDWR);
      set_context("pwritex(fd)");
      ev("op.pwritex", n, off);
      try {
        if (choose(2, "G.pwritex.form")) phosg::pwritex(fd, D, off);
        else phosg::pwritex(fd, D.data(), D.size(), off);
      } catch (const std::exception& e) {
        threw = true;
        what = e.what();
      }
      string want = base;
      if (n) {
        if (want.size() < off + n) want.resize(off + n, '\0');
        want.replace(off, n, D);
      }
      if (!threw) {
        if (ino->data != want) fail(string("pwritex/") + diff_kind(ino->data, want), c.short_writes ? "short_write" : "plain", "pwritex returned normally but the file is wrong: " + describe_diff(ino->data, want));
      } else if (!c.errors && !c.short_writes) {
        fail("pwritex/threw_without_cause", "plain", "pwritex threw '" + what + "'");
      }
      close(fd);
      break;
    }
    case 2: { // preadx
      size_t off = choose_range(0, base_size + 4, "G.poff");
      size_t len = choose(4, "G.plen.kind") == 0 ? (base_size > off ? base_size - off : 0) + 1 + choose(3, "G.plen.extra") : choose_range(0, base_size > off ? base_size - off : 0, "G.plen");
      int fd = open(path.c_str(), O_RDONLY);
      set_context("preadx(fd)");
      ev("op.preadx", len, off);
      string r;
      try {
        r = phosg::preadx(fd, len, off);
      } catch (const std::exception& e) {
        threw = true;
        what = e.what();
      }
      bool in_range = len == 0 || off + len <= base_size;
      string want = (len && in_range) ? base.substr(off, len) : string();
      if (!threw) {
        hash_bytes(r.data(), r.size());
        if (!in_range || r != want) fail(string("preadx/") + diff_kind(r, want), c.short_reads ? "short_read" : "plain", "preadx returned normally with wrong contents");
        if (vfs::fd_entry(fd)->pos != 0) fail("preadx/moved_cursor", "cursor", "preadx changed the descriptor's file position");
      } else if (!c.errors && !c.short_reads && in_range) {
        fail("preadx/threw_without_cause", "plain", "preadx threw '" + what + "' although the range was delivered in full");
      }
      close(fd);
      break;
    }
    case 3: { // fwritex through stdio
      int cfd;
      FILE* f = vfs::fopen_inode(ino, "r+", &cfd, true);
      set_context("fwritex(FILE*)");
      ev("op.fwritex", n);
      try {
        if (choose(2, "G.fwritex.form")) phosg::fwritex(f, D);
        else phosg::fwritex(f, D.data(), D.size());
      } catch (const std::exception& e) {
        threw = true;
        what = e.what();
      }
      uint64_t errors_during_call = c.errors; // cookie errors seen before fwritex returned
      int flush_rc = fclose(f);
      string want = base;
      if (want.size() < n) want.resize(n);
      want.replace(0, n, D);
      if (!threw && errors_during_call) {
        // the stream reported a write error to fwrite (short count) while fwritex was running
        fail("fwritex/error_swallowed", "enospc", "the stream failed while fwritex was writing " + std::to_string(n) + " bytes, yet fwritex returned normally");
      }
      if (!threw && flush_rc == 0) {
        if (ino->data != want) fail(string("fwritex/") + diff_kind(ino->data, want), c.short_writes ? "short_write" : "plain", "fwritex and fclose succeeded but the file is wrong: " + describe_diff(ino->data, want));
      } else if (threw && !c.errors && !c.short_writes) {
        fail("fwritex/threw_without_cause", "plain", "fwritex threw '" + what + "'");
      }
      break;
    }
    case 4: { // writex<T> / pwritex<T> / preadx<T>
      Obj o;
      memset(&o, 0x5A, sizeof(o));
      o.a = 0xDEADBEEF;
      size_t off = choose_range(0, base_size + 3, "G.toff");
      int fd = open(path.c_str(), O_RDWR);
      set_context("pwritex<T>/preadx<T>");
      try {
        phosg::pwritex<Obj>(fd, o, off);
      } catch (const std::exception& e) {
        threw = true;
        what = e.what();
      }
      if (!threw) {
        if (ino->data.size() < off + sizeof(o) || memcmp(ino->data.data() + off, &o, sizeof(o))) fail("pwritex_T/wrong_bytes", "plain", "pwritex<T> did not store the object at the offset");
        uint64_t errs_before = c.errors + c.short_reads;
        try {
          Obj back = phosg::preadx<Obj>(fd, off);
          if (memcmp(&back, &o, sizeof(o))) fail("preadx_T/wrong_bytes", "plain", "preadx<T> returned a different object");
        } catch (const AbortRun&) {
          throw;
        } catch (const std::exception& e) {
          if (c.errors + c.short_reads == errs_before) fail("preadx_T/threw_without_cause", "plain", string("preadx<T> threw '") + e.what() + "'");
        }
      } else if (!c.errors && !c.short_writes) {
        fail("pwritex_T/threw_without_cause", "plain", "pwritex<T> threw '" + what + "'");
      }
      close(fd);
      break;
    }
  }
  set_context("");
}

// ------------------------------------------------------------------ scenario D: directories

static const char* NAME_POOL[] = {"a", "b", "c", ".hidden", "with space", "-dash", "...", "..x", "file.txt", "UPPER", "\xC3\xBC" "ml", "z"};

struct TreeGen {
  std::vector<string> all_paths; // every created path (files and dirs)
  unsigned budget = 40;
  unsigned links = 0;
};

static void gen_tree(const string& dir, unsigned depth, TreeGen& tg) {
  vfs::mkdir_p(dir);
  unsigned n = choose(depth == 0 ? 6 : 4, "D.nentries");
  std::set<string> used;
  for (unsigned i = 0; i < n && tg.budget > 0; i++) {
    string name;
    unsigned pick_i = choose(14, "D.name");
    if (pick_i == 13) name = string(255, 'L');
    else if (pick_i == 12) name = "n" + std::to_string(choose(100, "D.name.num"));
    else name = NAME_POOL[pick_i];
    if (!used.insert(name).second) continue;
    tg.budget--;
    string p = dir + "/" + name;
    unsigned what = choose(10, "D.isdir");
    if (what >= 8) {
      // a symbolic link: to a directory outside the tree, to a file outside, to the tree's own root (a loop),
      // to nowhere, or to a directory created earlier inside the tree
      string target;
      switch (choose(5, "D.link.target")) {
        case 0: target = "/sim/keep"; break;
        case 1: target = "/sim/keep/k1"; break;
        case 2: target = "/sim/tree"; break;
        case 3: target = "/sim/nowhere/at/all"; break;
        default: {
          std::vector<string> inside;
          for (auto& q : tg.all_paths) {
            auto qn = vfs::lookup(q);
            if (qn && qn->kind == vfs::Kind::DIR) inside.push_back(q);
          }
          target = inside.empty() ? string("/sim/keep/sub") : inside[choose(inside.size(), "D.link.inside")];
          break;
        }
      }
      vfs::mksymlink(p, target);
      tg.all_paths.push_back(p);
      tg.links++;
      VS_PROBE("tree_with_symlink");
    } else if (depth < 4 && what >= 6) {
      tg.all_paths.push_back(p);
      gen_tree(p, depth + 1, tg);
    } else {
      auto n = vfs::mkfile(p, "x");
      if (what == 5) {
        n->kind = vfs::Kind::STREAM; // a FIFO (or socket, device...): an entry that is neither file nor directory
        VS_PROBE("tree_with_fifo");
      }
      tg.all_paths.push_back(p);
    }
  }
}

static string g_deleter_root;
static unsigned g_deleter_den = 0;
static unsigned g_deleter_fired = 0;
static void collect_paths(const std::shared_ptr<vfs::Inode>& n, const string& prefix, std::vector<string>& out) {
  for (auto& kv : n->entries) {
    out.push_back(prefix + "/" + kv.first);
    if (kv.second->kind == vfs::Kind::DIR) collect_paths(kv.second, prefix + "/" + kv.first, out);
  }
}
static void deleter_hook() {
  // a second process removing things under the same tree, scheduled between the library's calls
  if (!g_deleter_den || !chance(1, g_deleter_den, "D.deleter.fire")) return;
  auto root = vfs::lookup(g_deleter_root);
  if (!root || root->kind != vfs::Kind::DIR) return;
  std::vector<string> paths;
  collect_paths(root, g_deleter_root, paths);
  if (paths.empty()) return;
  const string& victim = paths[choose(paths.size(), "D.deleter.victim")];
  size_t slash = victim.rfind('/');
  auto parent = vfs::lookup(victim.substr(0, slash));
  if (parent) {
    parent->entries.erase(victim.substr(slash + 1));
    VS_FAULT("concurrent_delete");
    g_deleter_fired++;
    ev("deleter.remove", paths.size());
  }
}

static void scen_dirs() {
  count("scenario.dirs");
  TreeGen tg;
  string root = "/sim/tree";
  gen_tree(root, 0, tg);
  // a sibling tree that must stay untouched
  vfs::mkfile("/sim/keep/k1", "k");
  vfs::mkfile("/sim/keep/sub/k2", "kk");
  vfs::mkfile("/sim/treex", "not part of the tree");
  auto keep_before = vfs::snapshot("/sim/keep");
  vfs::world().shuffle_readdir = choose(2, "D.shuffle");
  // readdir() may or may not know the type of an entry (d_type is DT_UNKNOWN on some file systems)
  vfs::world().dirent_types_known = choose(2, "D.d_type_known");
  if (tg.all_paths.size() > 1) mark_nontrivial();
  note("tree with " + std::to_string(tg.all_paths.size()) + " entries");

  // dirname + "/" + basename == p for every path with a slash
  for (auto& p : tg.all_paths) {
    if (phosg::dirname(p) + "/" + phosg::basename(p) != p) fail("dirname_basename/not_inverse", "generated_path", "dirname(p)+'/'+basename(p) != p for p=" + p);
  }
  {
    string p;
    unsigned len = 1 + choose(12, "D.rawpath.len");
    bool has_slash = false;
    for (unsigned i = 0; i < len; i++) {
      char ch = "/ab./\\ "[choose(7, "D.rawpath.ch")]; // (a backslash and a blank are ordinary name characters)
      has_slash |= ch == '/';
      p += ch;
    }
    if (has_slash && phosg::dirname(p) + "/" + phosg::basename(p) != p) fail("dirname_basename/not_inverse", "raw_path", "dirname(p)+'/'+basename(p) != p for p=" + p);
    if (!has_slash && (phosg::basename(p) != p)) fail("dirname_basename/no_slash", "raw_path", "basename of a slash-free path is not the path");
  }

  // listing of a (random) directory of the tree
  std::vector<string> dirs = {root};
  for (auto& p : tg.all_paths) {
    auto n = vfs::lookup(p);
    if (n && n->kind == vfs::Kind::DIR) dirs.push_back(p);
  }
  const string& ldir = dirs[choose(dirs.size(), "D.listdir")];
  {
    auto n = vfs::lookup(ldir);
    std::set<string> want;
    for (auto& kv : n->entries) want.insert(kv.first);
    set_context("list_directory");
    ev("op.list_directory", want.size());
    std::set<string> got_set;
    size_t got_count = 0;
    // errno is whatever an earlier, unrelated call left behind: a caller never clears it for the library
    errno = (int)pick({0, ENOENT, EINTR, EBADF}, "D.stale_errno");
    try {
      auto got = phosg::list_directory(ldir);
      got_count = got.size();
      for (auto& g : got) got_set.insert(g);
    } catch (const std::exception& e) {
      fail("list_directory/threw", "existing_dir", string("list_directory threw on an existing directory: ") + e.what());
    }
    if (got_set != want || got_count != want.size()) {
      fail("list_directory/wrong_names", want.count("...") || want.count("..x") || want.count(".hidden") ? "dot_names" : "plain",
          "list_directory returned " + std::to_string(got_count) + " names, the directory holds " + std::to_string(want.size()));
    }
    set_context("list_directory_sorted");
    std::vector<string> want_sorted(want.begin(), want.end());
    std::vector<string> got_sorted;
    errno = (int)pick({0, EAGAIN, ENOTDIR}, "D.stale_errno.sorted");
    try {
      got_sorted = phosg::list_directory_sorted(ldir);
    } catch (const std::exception& e) {
      fail("list_directory_sorted/threw", "existing_dir", string("list_directory_sorted threw: ") + e.what());
    }
    if (got_sorted != want_sorted) fail("list_directory_sorted/wrong_names", "plain", "list_directory_sorted is not the sorted set of entry names");
    // a missing directory must throw, not return an empty listing
    bool threw = false;
    try {
      phosg::list_directory(root + "/does-not-exist");
    } catch (const std::exception&) {
      threw = true;
    }
    if (!threw) fail("list_directory/missing_dir_accepted", "plain", "list_directory of a missing directory did not throw");
    if (vfs::open_fd_count()) fail("list_directory/fd_leak", "leak", "descriptor left open");
    if (vfs::world().calls.double_close || vfs::world().calls.ebadf) fail("list_directory/double_close", "close", "list_directory closed a descriptor twice (or used a closed one): in a program with other threads the second close hits whatever was opened under that number meanwhile");
  }

  // recursive unlink of a subtree (or the whole tree), optionally with a racing deleter or EACCES
  std::vector<string> targets = {root};
  for (auto& p : tg.all_paths) targets.push_back(p);
  const string target = targets[choose(targets.size(), "D.unlink.target")];
  unsigned arm = choose(4, "D.unlink.arm"); // 0,1 plain; 2 racing deleter; 3 EACCES
  bool deny = false;
  g_deleter_fired = 0;
  if (arm == 2) {
    g_deleter_root = target;
    g_deleter_den = (uint32_t)pick({4, 2, 16}, "D.deleter.rate");
    vfs::world().between_dir_calls = deleter_hook;
  } else if (arm == 3) {
    std::vector<string> under;
    for (auto& p : tg.all_paths)
      if (p == target || p.compare(0, target.size() + 1, target + "/") == 0) under.push_back(p);
    if (!under.empty()) {
      auto n = vfs::lookup(under[choose(under.size(), "D.deny.which")]);
      if (n) {
        n->deny_remove = true;
        deny = true;
      }
    }
  }
  // what must survive: everything not at or below target
  std::vector<string> survivors;
  for (auto& p : tg.all_paths)
    if (!(p == target || p.compare(0, target.size() + 1, target + "/") == 0)) survivors.push_back(p);
  vfs::calls_reset();
  set_context("unlink(recursive)");
  ev("op.unlink_recursive", targets.size(), arm);
  bool threw = false;
  string what;
  errno = (int)pick({0, ENOENT, EACCES}, "D.stale_errno.unlink");
  try {
    phosg::unlink(target, true);
  } catch (const std::exception& e) {
    threw = true;
    what = e.what();
  }
  check_budget("unlink_recursive");
  vfs::world().between_dir_calls = nullptr;
  g_deleter_den = 0;
  set_context("");
  bool raced = g_deleter_fired > 0;
  if (!threw) {
    if (vfs::exists(target)) {
      if (!deny) fail("unlink_recursive/left_behind", arm == 2 ? "racing_deleter" : "plain", "unlink(p, true) returned normally but p still exists: " + target);
      fail("unlink_recursive/error_swallowed", "eacces", "unlink(p, true) returned normally although an entry could not be removed (EACCES) and the tree is still there");
    }
  } else {
    if (!deny && !raced) fail("unlink_recursive/threw_without_cause", "plain", "unlink(p, true) threw '" + what + "' on a quiet tree");
    if (deny) VS_PROBE("unlink.threw_on_eacces");
  }
  for (auto& p : survivors)
    if (!vfs::exists(p)) fail("unlink_recursive/removed_outside", "plain", "unlink(" + target + ", true) removed " + p + " which is not below it");
  if (vfs::snapshot("/sim/keep") != keep_before && tg.links) fail("unlink_recursive/removed_outside", "through_symlink", "unlink(" + target + ", true) removed or changed entries of /sim/keep, which is outside the tree and only pointed to by a symbolic link inside it: the link must be removed, not followed");
  if (!vfs::exists("/sim/treex")) fail("unlink_recursive/removed_outside", "sibling_prefix", "unlink removed a sibling whose name merely starts with the target's name");
  if (vfs::snapshot("/sim/keep") != keep_before) fail("unlink_recursive/removed_outside", "other_tree", "unlink changed an unrelated tree");
  if (vfs::open_fd_count()) fail("unlink_recursive/fd_leak", "leak", "descriptor left open");

  // non-recursive unlink of a missing file is tolerated; of a directory it must throw
  try {
    phosg::unlink("/sim/keep/not-there", false);
  } catch (const std::exception& e) {
    fail("unlink/threw_on_missing", "plain", string("unlink of a missing file threw: ") + e.what());
  }
}

// ------------------------------------------------------------------ scenario E: scoped_fd histories

static void scen_scoped_fd() {
  count("scenario.scoped_fd");
  vfs::mkfile("/sim/e/f0", "zero");
  vfs::mkfile("/sim/e/f1", "one");
  vfs::mkfile("/sim/e/f2", "two");
  const char* paths[3] = {"/sim/e/f0", "/sim/e/f1", "/sim/e/f2"};
  std::optional<phosg::scoped_fd> slot[3];
  int model[3] = {-2, -2, -2}; // -2: no object; -1: empty object; else fd held
  vfs::world().faults = vfs::Faults();
  vfs::world().faults.eintr_close = (uint32_t)pick({0, 4, 2}, "E.eintr_close");
  // a process started without stdin: the first descriptor opened in this history is number 0
  if (choose(4, "E.fd0") == 3) vfs::world().hand_out_fd0 = true;
  unsigned nops = 2 + choose(14, "E.nops");
  mark_nontrivial();
  // number of the descriptor the last open() returned (0 if this history was handed descriptor 0 just now)
  bool zero_seen = false;
  auto newest_fd = [&zero_seen]() {
    if (vfs::world().fd0_is_virtual && !zero_seen) {
      zero_seen = true;
      VS_PROBE("scoped_fd.holds_descriptor_0");
      return 0;
    }
    return vfs::world().next_fd - 1;
  };
  for (unsigned i = 0; i < nops && !failed(); i++) {
    unsigned s = choose(3, "E.slot");
    unsigned op = choose(11, "E.op");
    ev("op.scoped_fd", op, s);
    set_context("scoped_fd op " + std::to_string(op));
    switch (op) {
      case 0: // construct from path
        if (model[s] == -2) {
          if (choose(2, "E.ctor.form")) slot[s].emplace(string(paths[s]), O_RDONLY);
          else slot[s].emplace(paths[s], O_RDONLY);
          model[s] = newest_fd();
        }
        break;
      case 1: // construct from raw descriptor
        if (model[s] == -2) {
          int raw = open(paths[s], O_RDONLY);
          if (raw == 0) {
            zero_seen = true;
            VS_PROBE("scoped_fd.holds_descriptor_0");
          }
          slot[s].emplace(raw);
          model[s] = raw;
        }
        break;
      case 2: { // move-construct into an empty slot
        unsigned t = (s + 1 + choose(2, "E.other")) % 3;
        if (model[s] != -2 && model[t] == -2) {
          slot[t].emplace(std::move(*slot[s]));
          model[t] = model[s];
          model[s] = -1;
        }
        break;
      }
      case 3: { // move-assign
        unsigned t = (s + 1 + choose(2, "E.other")) % 3;
        if (model[s] != -2 && model[t] != -2) {
          *slot[t] = std::move(*slot[s]);
          model[t] = model[s]; // the previous descriptor of t must have been closed
          model[s] = -1;
          VS_PROBE("scoped_fd.move_assign_over_open");
        }
        break;
      }
      case 4: // assign raw int
        if (model[s] != -2) {
          int raw = open(paths[s], O_RDONLY);
          if (raw == 0) {
            zero_seen = true;
            VS_PROBE("scoped_fd.holds_descriptor_0");
          }
          *slot[s] = raw;
          model[s] = raw;
        }
        break;
      case 5: // open over an open one
        if (model[s] != -2) {
          if (choose(2, "E.open.form")) slot[s]->open(string(paths[(s + 1) % 3]), O_RDONLY);
          else slot[s]->open(paths[(s + 1) % 3], O_RDONLY);
          model[s] = newest_fd();
        }
        break;
      case 6: // failing open: must throw and must not leak or double close
        if (model[s] != -2) {
          bool threw = false;
          try {
            slot[s]->open("/sim/e/missing", O_RDONLY);
          } catch (const phosg::cannot_open_file&) {
            threw = true;
          } catch (const std::exception&) {
            threw = true;
          }
          if (!threw) fail("scoped_fd/open_missing_no_throw", "open", "scoped_fd::open of a missing file did not throw");
          // the object may keep nothing (current behaviour) or keep the old descriptor
          int now = int(*slot[s]);
          if (now != -1 && now != model[s]) fail("scoped_fd/bad_state_after_failed_open", "open", "scoped_fd holds an unexpected descriptor after a failed open");
          model[s] = now;
          VS_PROBE("scoped_fd.failed_open");
        }
        break;
      case 7: // explicit close (twice is fine)
        if (model[s] != -2) {
          slot[s]->close();
          if (choose(2, "E.close.twice")) slot[s]->close();
          model[s] = -1;
        }
        break;
      case 8: // destroy
        if (model[s] != -2) {
          slot[s].reset();
          model[s] = -2;
        }
        break;
      case 9: // default-construct
        if (model[s] == -2) {
          slot[s].emplace();
          model[s] = -1;
        }
        break;
      case 10: // use the descriptor through the implicit conversion
        if (model[s] >= 0) {
          try {
            string r = phosg::read(int(*slot[s]), 2);
            (void)r;
          } catch (const std::exception& e) {
            fail("scoped_fd/held_fd_unusable", "read", string("descriptor held by scoped_fd is not usable: ") + e.what());
          }
        }
        break;
    }
    // observable state must match the model after every step
    for (unsigned k = 0; k < 3; k++) {
      if (model[k] == -2) continue;
      int v = int(*slot[k]);
      bool open_flag = slot[k]->is_open();
      if (v != model[k] || open_flag != (model[k] >= 0)) {
        fail("scoped_fd/state_mismatch", "op" + std::to_string(op), "after operation " + std::to_string(op) + " slot " + std::to_string(k) + " reports descriptor " + std::to_string(v) + ", expected " + std::to_string(model[k]));
      }
      if (model[k] >= 0) {
        auto* of = vfs::fd_entry(model[k]);
        if (!of || !of->is_open) fail("scoped_fd/closed_while_owned", "op" + std::to_string(op), "a descriptor still owned by a scoped_fd has been closed (operation " + std::to_string(op) + ")");
      }
    }
    if (vfs::world().calls.double_close || vfs::world().calls.ebadf) fail("scoped_fd/double_close", "op" + std::to_string(op), "a descriptor was closed twice (operation " + std::to_string(op) + ")");
  }
  for (auto& s : slot) s.reset();
  set_context("");
  if (failed()) return;
  for (auto& kv : vfs::world().fds) {
    if (kv.second.is_open) fail("scoped_fd/leak", "end_of_history", "descriptor " + std::to_string(kv.first - vfs::FD_BASE) + " was never closed");
    if (kv.second.close_calls != 1) fail("scoped_fd/double_close", "end_of_history", "descriptor closed " + std::to_string(kv.second.close_calls) + " times");
  }
}

// ------------------------------------------------------------------ scenario F: Poll histories

static void scen_poll() {
  count("scenario.poll");
  phosg::Poll p;
  vfs::world().own_empty_polls = true;
  int fds[3];
  bool closed[3] = {false, false, false};
  bool closed_behind[3] = {false, false, false}; // closed by the owner while (possibly) still registered
  for (int i = 0; i < 3; i++) {
    fds[i] = vfs::open_stream_fd("data", 0, 0);
    vfs::fd_entry(fds[i])->explicit_ready = true;
  }
  // shuffle registration order relative to numeric order
  std::map<int, short> model;
  vfs::Faults& f = vfs::world().faults;
  f = vfs::Faults();
  if (choose(4, "F.eintr") == 3) f.eintr = 4;
  unsigned nops = 2 + choose(14, "F.nops");
  mark_nontrivial();
  static const short EVS[] = {POLLIN, POLLOUT, POLLIN | POLLOUT, POLLPRI, 0}; // (0: only hang-ups and errors are of interest)
  for (unsigned i = 0; i < nops && !failed(); i++) {
    unsigned k = choose(3, "F.fd");
    unsigned op = choose(6, "F.op");
    if (op == 5 && !closed[k] && !closed_behind[k]) {
      // the owner closes a descriptor behind Poll's back (it stays registered): the next poll() reports POLLNVAL
      // for it; the set itself is unchanged - Poll is a map, only add and remove change it
      ev("op.poll.owner_closes", k, model.count(fds[k]));
      close(fds[k]);
      closed_behind[k] = true;
      VS_PROBE("poll.registered_fd_closed");
      continue;
    }
    if (op == 5) op = 4;
    if (closed[k] && !closed_behind[k]) {
      fds[k] = vfs::open_stream_fd("data", 0, 0);
      vfs::fd_entry(fds[k])->explicit_ready = true;
      closed[k] = false;
    }
    set_context("Poll op " + std::to_string(op));
    switch (op) {
      case 0:
      case 1: {
        short evs = EVS[choose(5, "F.events")];
        if (model.count(fds[k])) VS_PROBE("poll.readd_existing");
        ev("op.poll.add", k, evs);
        p.add(fds[k], evs);
        model[fds[k]] = evs;
        break;
      }
      case 2: {
        bool close_fd = choose(3, "F.remove.close") == 2;
        if (closed_behind[k]) close_fd = false; // its owner has closed it already
        bool present = model.count(fds[k]);
        ev("op.poll.remove", k, close_fd);
        p.remove(fds[k], close_fd);
        model.erase(fds[k]);
        if (close_fd) {
          auto* of = vfs::fd_entry(fds[k]);
          if (present && of->is_open) fail("poll/remove_did_not_close", "remove", "Poll::remove(fd, true) on a registered descriptor did not close it");
          if (!present && !of->is_open) VS_PROBE("poll.remove_absent_closed");
          if (!of->is_open) closed[k] = true;
        }
        if (present) VS_PROBE("poll.remove_present");
        if (closed_behind[k]) {
          // closed and no longer registered: the slot gets a fresh descriptor next time
          closed_behind[k] = false;
          closed[k] = true;
        }
        break;
      }
      case 3: {
        // change readiness, then poll
        for (int j = 0; j < 3; j++) {
          if (closed[j] || closed_behind[j]) continue;
          static const short RDY[] = {0, POLLIN, POLLOUT, POLLIN | POLLOUT, POLLHUP, POLLIN | POLLHUP, POLLPRI};
          vfs::fd_entry(fds[j])->ready = RDY[choose(7, "F.ready")];
        }
        vfs::calls_reset();
        std::unordered_map<int, short> got;
        int timeout_ms = (int)pick({0, 1, 1000, 250}, "F.timeout");
        bool use_default = choose(4, "F.timeout.default") == 3; // Poll::poll() defaults to a timeout of 0
        try {
          got = use_default ? p.poll() : p.poll(timeout_ms);
        } catch (const std::exception& e) {
          fail("poll/threw", "poll", string("Poll::poll threw: ") + e.what());
        }
        if (vfs::world().calls.polls && vfs::world().calls.last_poll_timeout != (use_default ? 0 : timeout_ms)) {
          fail("poll/timeout_not_forwarded", "timeout", "Poll::poll(" + std::to_string(use_default ? 0 : timeout_ms) + ") called poll() with a timeout of " + std::to_string(vfs::world().calls.last_poll_timeout) + " ms");
        }
        std::map<int, short> want;
        for (auto& kv : model) {
          auto* of = vfs::fd_entry(kv.first);
          short re = of->is_open ? (short)(of->ready & (kv.second | POLLHUP | POLLERR)) : (short)POLLNVAL;
          if (re) want[kv.first] = re;
        }
        std::map<int, short> got_sorted(got.begin(), got.end());
        ev("op.poll.poll", want.size(), got.size());
        if (vfs::world().calls.errors) {
          if (!got.empty() && got_sorted != want) fail("poll/wrong_events", "eintr", "Poll::poll returned events after an interrupted poll that do not match the registered set");
        } else if (got_sorted != want) {
          string d = "got {";
          for (auto& kv : got_sorted) d += std::to_string(kv.first - vfs::FD_BASE) + ":" + std::to_string(kv.second) + " ";
          d += "} want {";
          for (auto& kv : want) d += std::to_string(kv.first - vfs::FD_BASE) + ":" + std::to_string(kv.second) + " ";
          d += "}";
          fail("poll/wrong_events", "registered_set", "Poll::poll does not report exactly the registered descriptors with their latest event masks: " + d);
        }
        break;
      }
      case 4:
        break; // only the empty() check below
    }
    if (p.empty() != model.empty()) {
      fail("poll/empty_mismatch", "empty", string("Poll::empty() is ") + (p.empty() ? "true" : "false") + " but " + std::to_string(model.size()) + " descriptor(s) are registered (after operation " + std::to_string(op) + ")");
    }
    if (vfs::world().calls.double_close) fail("poll/double_close", "remove", "Poll closed a descriptor twice");
  }
  set_context("");
}

// ------------------------------------------------------------------ run

static void run() {
  vfs::reset();
  // the caller's FILE* may be unbuffered or have a tiny buffer: chunking then reaches the library's loops
  vfs::set_stdio_buffering(pick({0, 0, 1, 16, 255, 256, 4096}, "stdio.buffering"));
  // a caller never clears errno for the library: it is whatever an earlier, unrelated call left behind
  set_entry_errno((int)pick({0, 0, EINTR, EAGAIN, ENOENT, EBADF, ENOSPC, ERANGE}, "env.errno_on_entry"));
  switch (choose(10, "scenario")) {
    case 9: scen_real_FILE(); break;
    case 8: scen_real_pipe(); break;
    case 0: scen_stream_fd(); break;
    case 1: scen_stream_file(); break;
    case 2: scen_lines(); break;
    case 3: scen_files(); break;
    case 4: scen_exact_io(); break;
    case 5: scen_dirs(); break;
    case 6: scen_scoped_fd(); break;
    case 7: scen_poll(); break;
  }
  if (vfs::world().budget_exceeded && !failed()) fail_soft("engine/call_budget", "budget", "kernel-call budget exceeded");
}

int main(int argc, char** argv) {
  Engine e;
  e.property = "C14";
  e.name = "sim-fs";
  e.run = run;
  e.quick_runs = 160000;
  e.thorough_runs = 20000000;
  e.quick_cap_s = 120;
  e.thorough_cap_s = 1500;
  e.rule =
      "one run = one scenario (descriptor stream, real pipe with staggered writer, FILE* stream, stdio stream over a real descriptor, line reader, whole files, exact-size I/O, directory tree, scoped_fd history, Poll history) "
      "with sizes, contents, chunking, fault plan and operation sequence drawn from the seed; distinct = distinct hash of the event log "
      "(every kernel call with its result, every library call); non-trivial = at least one fault fired, delivery was chunked, a line exceeded the "
      "256-byte block, a tree had more than one entry, or the run is a scoped_fd/Poll history";
  e.assumptions = {
      "the simulated kernel implements only the POSIX behaviours listed in DESIGN.md 3.4; it never returns a result a real kernel could not",
      "stdio (glibc) is real: chunking below a FILE* is mostly absorbed by glibc, so FILE* scenarios mainly exercise EOF position and stream errors",
      "readdir() errors and clock effects are not injected (not promised by C14)",
      "fgets line content excludes NUL bytes (C fgets cannot report them)"};
  e.components = {{"phosg Filesystem.cc/.hh (read_all, read, readx, preadx, freadx, fgetcx, fgets, load_file, save_file, *_object_file, *_vector_file, writex, pwritex, fwritex, list_directory(_sorted), unlink, basename, dirname, scoped_fd, Poll)", "real code from the repository working tree"},
      {"glibc stdio", "real"},
      {"kernel: descriptors, regular files, pipes-like streams, directories, poll readiness", "stub: vsim/vfs.cc behind -Wl,--wrap and fopencookie"},
      {"kernel pipe in the real_pipe scenario", "real pipe; its writer is the simulator (one drawn chunk before each read of the library)"},
      {"stdio stream over a real descriptor (real_FILE scenario)", "real glibc stdio over a real kernel pipe or temporary file, filled before the call"},
      {"concurrent deleter / replacer process", "stub: task scheduled between the library's path-based calls"}};
  e.expected_probes = {"read_all_fd.saw_short_read", "read_all_fd.crossed_16k_block", "read_all_file.error_mid_stream", "read_all_file.crossed_16k_block",
      "fgets.line_longer_than_block", "fgets.line_longer_than_two_blocks", "fgets.line_exactly_block", "readx.threw_on_short", "save_file.threw_on_write_fault",
      "load_file.threw_on_read_fault", "unlink.threw_on_eacces", "scoped_fd.move_assign_over_open", "scoped_fd.failed_open", "poll.readd_existing", "poll.remove_present", "poll.registered_fd_closed", "read_all_fd.real_pipe", "read_helpers_on_regular_file", "tree_with_fifo", "tree_with_symlink", "scoped_fd.holds_descriptor_0", "load_file.file_truncated_concurrently", "read_all_file.real_fd_buffered", "FILE_on_sizeless_file", "save_file.same_size_file_exists"};
  e.expected_faults = {"short_read", "short_write", "EIO@read", "EINTR@read", "ENOSPC@write", "EINTR@write", "EINTR@poll", "EACCES@unlink", "EACCES@rmdir", "concurrent_delete", "ENOSPC@capacity", "EINTR@close", "staggered_pipe_write", "EAGAIN@read", "concurrent_truncate", "second_thread_reads_another_fd"};
  // "file_replaced_while_open" fires only when the code under test asks the PATH again after opening it;
  // the repository's load_file uses fstat() on the descriptor, so on the unchanged tree the counter stays 0
  return driver_main(argc, argv, e);
}
