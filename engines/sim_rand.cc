// sim-rand: C20, SCOPED to the entropy-backed clause only:
//   "random_int(lo,hi) always lies in [lo,hi] while random_data fills exactly the requested bytes".
// gcd / reduce_fraction / log2i / Vector / Matrix4 are pure functions and are NOT looked at here.
//
// Real: Random.cc (random_data, random_int, random_object<T>) and the readx path of Filesystem.cc.
// Stub: /dev/urandom — a simulated device whose byte stream, read sizes and errors are tape decisions.
//
// Each run executes its operation list twice, each time on a fresh thread (so random_data's
// thread_local buffer starts empty): pass A with device stream X, pass B with the bytewise
// complement of X and the identical device-fault script. A byte of the output that random_data did not
// write from device data is equal in both passes; a byte it did write differs by exactly the complement.
#include <errno.h>
#include <fcntl.h>
#include <string.h>
#include <sys/wait.h>
#include <unistd.h>

#include <condition_variable>
#include <mutex>
#include <string>
#include <thread>
#include <vector>

#include "Random.hh"

#include "vfs.hh"
#include "vsim.hh"

using namespace vsim;
using std::string;

namespace {

struct Op {
  int kind; // 0 random_data(void*,n)  1 random_data(n) string  2 random_object<T>  3 random_int
  size_t n = 0;
  int width = 0; // for random_object: 1,2,4,8
  int64_t lo = 0, hi = 0;
};

struct OpResult {
  bool threw = false;
  string what;
  string bytes; // output buffer including 8 guard bytes on each side for kind 0
  int64_t value = 0;
  uint64_t dev_reads = 0, dev_errors = 0, dev_short = 0, dev_page_cut = 0;
  // state of the device after this call (and, for random_int, after the resynchronising drain that follows it)
  uint64_t dev_pos_after = 0;
  size_t script_pos_after = 0;
};

struct PassResult {
  std::vector<OpResult> ops;
  uint64_t dev_bytes = 0;
  bool first_call_read_device = false;
  bool aborted = false;
  bool served_without_device = false; // on a fresh thread, 64 MiB were handed out without one read of the device
};

const uint8_t PREFILL = 0xA5; // its complement 0x5A also never collides with "unwritten == equal"

} // namespace

// Result of the once-per-process probe (probe_first_use_with_descriptor_0); "" = fine.
static string g_fd0_probe_failure;
static string g_probe_key = "fd0";

static int64_t draw_i64(const char* site) {
  switch (choose(8, site)) {
    case 0: return 0;
    case 1: return (int64_t)choose(300, "int.small") - 150;
    case 2: return INT64_MIN + (int64_t)choose(4, "int.min");
    case 3: return INT64_MAX - (int64_t)choose(4, "int.max");
    case 4: return (int64_t)(1ULL << (choose(63, "int.pow"))) - 1 + (int64_t)choose(3, "int.pow.off");
    case 5: return -(int64_t)(1ULL << (choose(63, "int.npow"))) + (int64_t)choose(3, "int.npow.off");
    default: {
      uint64_t v = ((uint64_t)choose(0xFFFFFFFFu, "int.hi32") << 32) | choose(0xFFFFFFFFu, "int.lo32");
      return (int64_t)v;
    }
  }
}

static std::vector<Op> gen_ops() {
  std::vector<Op> ops;
  unsigned n = 1 + choose(8, "nops");
  for (unsigned i = 0; i < n; i++) {
    Op op;
    op.kind = choose(4, "op");
    switch (op.kind) {
      case 0:
      case 1:
        op.n = pick({0, 1, 2, 3, 7, 8, 100, 4095, 4096, 4097, 8191, 8192, 8193, 10000, 12288, 20000}, "op.n");
        if (choose(4, "op.n.any") == 3) op.n = choose(9000, "op.n.value");
        break;
      case 2:
        op.width = 1 << choose(4, "op.width");
        break;
      case 3: {
        // spans at and around every width boundary of (hi-lo+1), negative lows, lo==hi, up to 2^63-2
        int64_t lo = draw_i64("lo");
        uint64_t span; // hi - lo
        switch (choose(7, "span.kind")) {
          case 0: span = 0; break;
          case 1: span = choose(4, "span.tiny"); break;
          case 2: span = 0xFE + choose(4, "span.8"); break; // range 0xFF..0x102
          case 3: span = 0xFFFE + choose(4, "span.16"); break;
          case 4: span = 0xFFFFFFFEULL + choose(4, "span.32"); break;
          case 5: span = 0x7FFFFFFFFFFFFFFFULL - choose(3, "span.63"); break; // up to 2^63-1: the largest span C20 quantifies over
          default: span = choose_range(0, 0x7FFFFFFFFFFFFFFFULL, "span.any"); break;
        }
        if (span > 0x7FFFFFFFFFFFFFFFULL) span = 0x7FFFFFFFFFFFFFFFULL; // hi-lo < 2^63
        // keep hi representable
        __int128 hi = (__int128)lo + (__int128)span;
        if (hi > (__int128)INT64_MAX) hi = INT64_MAX;
        op.lo = lo;
        op.hi = (int64_t)hi;
        break;
      }
    }
    ops.push_back(op);
  }
  return ops;
}

// Every pass must start from an empty refill buffer, whatever the library's buffering strategy (the
// repository keeps one buffer per thread, so a fresh thread starts empty; a build with one shared buffer does
// not). Draw single bytes until the device is read, then take the rest of what that read fetched.
static bool drain_refill_buffer() {
  uint64_t before = vfs::urandom_consumed();
  char tmp[1];
  unsigned calls = 0;
  // single bytes first (so that the amount fetched by the refill can be seen), then pages; a buffer that
  // hands out 64 MiB without ever reading the device is not a buffer of device data
  std::string page(4096, '\0');
  while (vfs::urandom_consumed() == before) {
    if (++calls > 5000 + 16384) return false;
    if (calls <= 5000) phosg::random_data(tmp, 1);
    else phosg::random_data(page.data(), page.size());
  }
  if (calls > 5000) {
    // lost track of what the last refill left over: take single bytes until the next refill, then its rest
    before = vfs::urandom_consumed();
    unsigned more = 0;
    while (vfs::urandom_consumed() == before) {
      if (++more > 70000) return false;
      phosg::random_data(tmp, 1);
    }
  }
  uint64_t fetched = vfs::urandom_consumed() - before;
  if (fetched > 1) {
    string rest(fetched - 1, '\0');
    uint64_t mid = vfs::urandom_consumed();
    phosg::random_data(rest.data(), rest.size());
    if (vfs::urandom_consumed() != mid) harness_bug("random_data does not serve buffered bytes first: the harness cannot isolate runs");
  }
  if (calls > 1) VS_PROBE("pass_started_with_leftover_buffer");
  return true;
}

// `mirror`: the first pass. random_int may consume a number of device bytes that depends on the bytes it draws
// (rejection sampling is a legitimate implementation), and the second pass sees the complemented stream. After
// every random_int call both passes therefore empty the refill buffer on a healthy device, and the second pass
// continues from the device position and script position the first pass had at that point: whatever the call
// consumed, the calls after it meet the same device in both passes.
static PassResult run_pass(const std::vector<Op>& ops, const std::vector<int>& script, const PassResult* mirror) {
  PassResult pr;
  uint64_t dev_start = 0;
  std::thread t([&]() {
    vfs::set_urandom_script({}); // a healthy device while draining
    if (!drain_refill_buffer()) {
      pr.served_without_device = true;
      return;
    }
    vfs::set_urandom_script(script);
    dev_start = vfs::urandom_consumed();
    for (size_t i = 0; i < ops.size(); i++) {
      const Op& op = ops[i];
      OpResult r;
      vfs::calls_reset();
      const vfs::Calls& c = vfs::world().calls;
      try {
        switch (op.kind) {
          case 0: {
            set_context(op.n > 4096 ? "random_data(void*, n > 4096)" : "random_data(void*, n <= 4096)");
            // exact-size heap block: ASan guards both ends; the extra guard bytes are inside a
            // separate outer buffer so an off-by-one inside the block is also visible to the oracle
            string block(op.n, (char)PREFILL);
            if (op.n == 0) {
              phosg::random_data(block.data(), 0);
            } else {
              char* exact = (char*)malloc(op.n);
              memset(exact, PREFILL, op.n);
              try {
                phosg::random_data(exact, op.n);
              } catch (...) {
                block.assign(exact, op.n);
                free(exact);
                throw;
              }
              block.assign(exact, op.n);
              free(exact);
            }
            r.bytes = block;
            break;
          }
          case 1:
            set_context(op.n > 4096 ? "random_data(n > 4096)" : "random_data(n <= 4096)");
            r.bytes = phosg::random_data(op.n);
            break;
          case 2: {
            set_context("random_object<uint" + std::to_string(op.width * 8) + ">");
            uint64_t v = 0;
            if (op.width == 1) v = phosg::random_object<uint8_t>();
            else if (op.width == 2) v = phosg::random_object<uint16_t>();
            else if (op.width == 4) v = phosg::random_object<uint32_t>();
            else v = phosg::random_object<uint64_t>();
            r.bytes.assign((const char*)&v, op.width);
            break;
          }
          case 3:
            set_context("random_int");
            r.value = phosg::random_int(op.lo, op.hi);
            break;
        }
      } catch (const std::exception& e) {
        r.threw = true;
        r.what = e.what();
      } catch (...) {
        r.threw = true;
        r.what = "non-standard exception";
      }
      r.dev_reads = c.reads;
      r.dev_errors = c.errors;
      r.dev_short = c.short_reads;
      r.dev_page_cut = c.short_reads_page;
      if (i == 0) pr.first_call_read_device = c.reads > 0;
      if (op.kind == 3) {
        uint64_t pos;
        size_t spos;
        vfs::urandom_get_state(pos, spos);
        vfs::urandom_script_suspend(true);
        set_context("");
        bool ok = drain_refill_buffer();
        vfs::urandom_script_suspend(false);
        if (!ok) {
          pr.served_without_device = true;
          pr.ops.push_back(r);
          return;
        }
        uint64_t pos_now;
        size_t ignored;
        vfs::urandom_get_state(pos_now, ignored);
        if (mirror && i < mirror->ops.size()) vfs::urandom_set_state(mirror->ops[i].dev_pos_after, mirror->ops[i].script_pos_after);
        else vfs::urandom_set_state(pos_now, spos);
      }
      vfs::urandom_get_state(r.dev_pos_after, r.script_pos_after);
      pr.ops.push_back(r);
    }
  });
  t.join();
  pr.dev_bytes = vfs::urandom_consumed() - dev_start;
  return pr;
}

static string op_name(const Op& op) {
  switch (op.kind) {
    case 0: return "random_data(void*," + std::to_string(op.n) + ")";
    case 1: return "random_data(" + std::to_string(op.n) + ")";
    case 2: return "random_object<uint" + std::to_string(op.width * 8) + "_t>";
    default: return "random_int(" + std::to_string(op.lo) + "," + std::to_string(op.hi) + ")";
  }
}

static void run() {
  vfs::reset();
  if (!g_fd0_probe_failure.empty()) fail(g_probe_key == "fd0" ? "random_data/first_use_with_descriptor_0" : (g_probe_key == "first_open_failed" ? "random_data/never_recovers_from_failed_first_open" : (g_probe_key == "fork_during_refill" ? "random_data/unusable_in_forked_child" : (g_probe_key == "in_forked_child" ? "random_int/out_of_range" : "random_data/called_during_static_initialisation"))), g_probe_key, g_fd0_probe_failure);
  set_entry_errno((int)pick({0, 0, EINTR, EAGAIN, ERANGE, EBADF}, "env.errno_on_entry"));
  int mode = choose(6, "dev.mode");
  uint64_t dseed = choose(1 << 20, "dev.seed");
  std::vector<Op> ops = gen_ops();
  // device-fault script (same in both passes)
  std::vector<int> script;
  if (choose(3, "dev.faults") == 2) {
    unsigned n = 1 + choose(6, "dev.script.len");
    for (unsigned i = 0; i < n; i++) {
      switch (choose(6, "dev.script.act")) {
        case 5: script.push_back(-3); break; // signal pending during this read (harmless for reads of <= one page)
        case 0:
        case 1: script.push_back(0); break;
        case 2: script.push_back(1 + choose(4095, "dev.script.short")); break;
        case 3: script.push_back(-1); break;
        case 4: script.push_back(-2); break;
      }
    }
  }
  if (verbose()) {
    static const char* MODES[] = {"all 00", "all FF", "80 00 ...", "00 FF ...", "counter", "seeded"};
    string d = string("entropy stream ") + MODES[mode] + ", device script [";
    for (int a : script) d += std::to_string(a) + " ";
    d += "] (0 full read, k>0 at most k bytes, -1 EIO, -2 EINTR, -3 signal pending: at most one page); calls:";
    for (auto& op : ops) d += " " + op_name(op) + ";";
    note(d);
  }
  if (mode <= 3) VS_PROBE("adversarial_entropy_stream");
  if (ops.size() > 1) mark_nontrivial();

  // pass A
  vfs::set_urandom(mode, dseed);
  PassResult A = run_pass(ops, script, nullptr);
  if (A.served_without_device) {
    fail("random_data/bytes_not_from_device", "fresh_thread", "on a freshly started thread random_data handed out more than 64 MiB without reading the entropy device once: what it serves was never filled from the device (state left behind by calls on other threads)");
  }
  // pass B: complement stream (mode + 100 => complement of mode)
  vfs::set_urandom(mode + 100, dseed);
  PassResult B = run_pass(ops, script, &A);
  if (B.served_without_device) fail("random_data/bytes_not_from_device", "fresh_thread", "on a freshly started thread random_data handed out more than 64 MiB without reading the entropy device once");
  set_context("");

  uint64_t returned_bytes = 0;
  for (size_t i = 0; i < ops.size(); i++) {
    const Op& op = ops[i];
    const OpResult& a = A.ops[i];
    const OpResult& b = B.ops[i];
    ev("op", op.kind, op.kind == 3 ? (uint64_t)op.lo : op.n + op.width, a.threw);
    if (a.threw != b.threw) {
      // (random_int may read the device a different number of times in the two passes - its draws differ - and so
      // meet a scripted fault in one pass only; that is explained by the fault)
      const OpResult& thrower = a.threw ? a : b;
      if (!(op.kind == 3 && (thrower.dev_errors || thrower.dev_short)))
        fail("random/nondeterministic_failure", "two_pass", op_name(op) + " threw in one pass and not in the other although the device behaved identically");
      VS_PROBE("threw_on_device_fault");
      continue;
    }
    if (a.threw) {
      if (!a.dev_errors && !a.dev_short && a.dev_page_cut) {
        fail("random/threw_on_interrupted_large_read", "page_cut", op_name(op) + " threw '" + a.what + "': it read more than one page from the entropy device in one call, and Linux cuts such a read at a page boundary when a signal is pending");
      }
      if (!a.dev_errors && !a.dev_short) {
        fail("random/threw_without_fault", op.kind == 3 ? "random_int" : "random_data", op_name(op) + " threw '" + a.what + "' although the entropy device delivered everything asked");
      }
      VS_PROBE("threw_on_device_fault");
      continue;
    }
    if (op.kind == 3) {
      hash_u64((uint64_t)a.value);
      for (const OpResult* r : {&a, &b}) {
        if (r->value < op.lo || r->value > op.hi) {
          uint64_t range = (uint64_t)op.hi - (uint64_t)op.lo + 1;
          const char* w = range > 0xFFFFFFFFULL ? "range>32bit" : (range > 0xFFFF ? "range>16bit" : (range > 0xFF ? "range>8bit" : "range<=8bit"));
          fail("random_int/out_of_range", w, "random_int(" + std::to_string(op.lo) + ", " + std::to_string(op.hi) + ") returned " + std::to_string(r->value));
        }
      }
      if (op.lo == op.hi) VS_PROBE("random_int.lo_equals_hi");
      if (op.lo < 0) VS_PROBE("random_int.negative_low");
      uint64_t range = (uint64_t)op.hi - (uint64_t)op.lo + 1;
      if (range == 0x100 || range == 0x10000 || range == 0x100000000ULL) VS_PROBE("random_int.range_at_width_boundary");
      if (range == 0x8000000000000000ULL) VS_PROBE("random_int.span_2_63_minus_1");
      continue;
    }
    // byte-producing calls
    size_t n = op.kind == 2 ? (size_t)op.width : op.n;
    hash_bytes(a.bytes.data(), a.bytes.size());
    if (a.bytes.size() != n || b.bytes.size() != n) {
      fail("random_data/wrong_length", op.kind == 1 ? "string_form" : "buffer_form", op_name(op) + " produced " + std::to_string(a.bytes.size()) + " bytes");
    }
    for (size_t j = 0; j < n; j++) {
      uint8_t x = a.bytes[j], y = b.bytes[j];
      if ((uint8_t)~x != y) {
        const char* where = j == 0 ? "first_byte" : (j + 1 == n ? "last_byte" : "middle");
        string how = (x == y) ? "was not written from device data (same value in both passes)" : "does not come from the entropy device";
        fail("random_data/byte_not_filled", where, op_name(op) + ": output byte " + std::to_string(j) + " of " + std::to_string(n) + " " + how);
      }
    }
    returned_bytes += n;
    if (n > 4096) VS_PROBE("random_data.spans_refill");
    if (n == 4096) VS_PROBE("random_data.exactly_buffer");
  }
  // no output invented: the device delivered at least what was returned (random_int draws included
  // implicitly: they only add to the left side)
  if (A.dev_bytes < returned_bytes) {
    fail("random_data/more_output_than_entropy", "accounting", "calls returned " + std::to_string(returned_bytes) + " bytes but the device only delivered " + std::to_string(A.dev_bytes));
  }
}


// random_data opens /dev/urandom through a function-local static the first time it is called in a
// process. A process started without stdin gets descriptor 0 for it. That configuration cannot vary per
// run (the static is per process), so it is probed once, in a forked child, before any run.
static void probe_first_use_with_descriptor_0() {
  fflush(stdout);
  fflush(stderr);
  pid_t pid = fork();
  if (pid < 0) return;
  if (pid == 0) {
    int devnull = open("/dev/null", O_WRONLY);
    if (devnull >= 0) dup2(devnull, 2);
    vfs::reset();
    vfs::set_urandom(5, 12345);
    vfs::urandom_open_returns_fd0(true);
    int code = 0;
    try {
      uint8_t buf[64];
      memset(buf, 0, sizeof(buf));
      phosg::random_data(buf, sizeof(buf));
      bool all_zero = true;
      for (uint8_t b : buf) all_zero &= b == 0;
      if (all_zero) code = 3;
      int64_t v = phosg::random_int(10, 20);
      if (v < 10 || v > 20) code = 4;
    } catch (const std::exception&) {
      code = 2;
    }
    _exit(code);
  }
  int status = 0;
  while (waitpid(pid, &status, 0) < 0 && errno == EINTR) {
  }
  if (WIFEXITED(status) && WEXITSTATUS(status) == 0) return;
  if (WIFEXITED(status) && WEXITSTATUS(status) == 2) g_fd0_probe_failure = "the first random_data call of a process threw when /dev/urandom was opened as descriptor 0 (process started without stdin)";
  else if (WIFEXITED(status) && WEXITSTATUS(status) == 3) g_fd0_probe_failure = "random_data left its buffer unfilled when /dev/urandom was opened as descriptor 0";
  else if (WIFEXITED(status) && WEXITSTATUS(status) == 4) g_fd0_probe_failure = "random_int left [lo,hi] when /dev/urandom was opened as descriptor 0";
  else g_fd0_probe_failure = "the process died in its first random_data call when /dev/urandom was opened as descriptor 0";
}

// The very first use in a process happens while the descriptor table is full: that call may throw, but once
// descriptors are available again the next calls must deliver (a failure of the first open must not stick).
static void probe_first_use_without_free_descriptor() {
  fflush(stdout);
  fflush(stderr);
  pid_t pid = fork();
  if (pid < 0) return;
  if (pid == 0) {
    int devnull = open("/dev/null", O_WRONLY);
    if (devnull >= 0) dup2(devnull, 2);
    vfs::reset();
    vfs::set_urandom(5, 777);
    vfs::urandom_open_fails(1);
    int code = 0;
    uint8_t buf[64];
    try {
      phosg::random_data(buf, sizeof(buf)); // may throw: no descriptor
    } catch (const std::exception&) {
    }
    for (int attempt = 0; attempt < 3 && !code; attempt++) {
      try {
        memset(buf, 0, sizeof(buf));
        phosg::random_data(buf, sizeof(buf));
        bool all_zero = true;
        for (uint8_t b : buf) all_zero &= b == 0;
        if (all_zero) code = 3;
        int64_t v = phosg::random_int(-5, 5);
        if (v < -5 || v > 5) code = 4;
      } catch (const std::exception&) {
        code = 2;
      }
    }
    _exit(code);
  }
  int status = 0;
  while (waitpid(pid, &status, 0) < 0 && errno == EINTR) {
  }
  if (WIFEXITED(status) && WEXITSTATUS(status) == 0) return;
  if (!g_fd0_probe_failure.empty()) return;
  if (WIFEXITED(status) && WEXITSTATUS(status) == 2) g_fd0_probe_failure = "the first random_data call of the process found no free descriptor (EMFILE); after descriptors were available again every later call still threw: the failed open is remembered for good";
  else if (WIFEXITED(status) && WEXITSTATUS(status) == 3) g_fd0_probe_failure = "after a first call that found no free descriptor (EMFILE), random_data returned without filling the buffer";
  else if (WIFEXITED(status) && WEXITSTATUS(status) == 4) g_fd0_probe_failure = "after a first call that found no free descriptor (EMFILE), random_int left [lo,hi]";
  else g_fd0_probe_failure = "the process died in random_data after its first call had found no free descriptor (EMFILE)";
  g_probe_key = "first_open_failed";
}

// ---- the code under test called while the program's static objects are still being constructed (a global in some
// other translation unit draws an id in its constructor). This translation unit is linked before the library, so
// the object below is constructed before any namespace-scope object of Random.cc.
static string g_static_init_failure;
static struct StaticInitCaller {
  StaticInitCaller() {
    // in a forked copy of the half-initialised process, so that this process keeps its own "first use" for later
    pid_t pid = fork();
    if (pid < 0) return;
    if (pid == 0) {
      // (standard input is /dev/null here, and nothing may take longer than a few seconds)
      int nul = open("/dev/null", O_RDONLY);
      if (nul >= 0) dup2(nul, 0);
      alarm(5);
      vfs::simulate_getrandom(true); // (process_init has not run yet)
      int code = 0;
      uint64_t before = vfs::urandom_consumed();
      try {
        uint8_t id[16];
        memset(id, 0, sizeof(id));
        phosg::random_data(id, sizeof(id));
        if (vfs::urandom_consumed() == before) code = 3;
      } catch (const std::exception&) {
        code = 2;
      }
      _exit(code);
    }
    int status = 0;
    while (waitpid(pid, &status, 0) < 0 && errno == EINTR) {
    }
    const char* when = " when called from the constructor of a static object of another translation unit (before the library's own static objects existed)";
    if (WIFEXITED(status) && WEXITSTATUS(status) == 0) return;
    if (WIFEXITED(status) && WEXITSTATUS(status) == 3) g_static_init_failure = string("random_data returned 16 bytes without reading the entropy device") + when;
    else if (WIFEXITED(status) && WEXITSTATUS(status) == 2) g_static_init_failure = string("random_data threw") + when;
    else g_static_init_failure = string("the process died in random_data") + when;
  }
} g_static_init_caller;

// ---- fork() while another thread is inside the refill: the child is a copy of the forking thread only. If the
// library guards the refill with a lock, that lock is held in the child by a thread that does not exist there.
static std::mutex g_park_mutex;
static std::condition_variable g_park_cv;
static bool g_parked = false, g_release = false, g_park_armed = false;
static void park_in_device_read() {
  std::unique_lock<std::mutex> lk(g_park_mutex);
  if (!g_park_armed) return;
  g_park_armed = false;
  g_parked = true;
  g_park_cv.notify_all();
  g_park_cv.wait(lk, [] { return g_release; });
}

static void probe_fork_while_refilling() {
  fflush(stdout);
  fflush(stderr);
  pid_t pid = fork();
  if (pid < 0) return;
  if (pid == 0) {
    int devnull = open("/dev/null", O_WRONLY);
    if (devnull >= 0) dup2(devnull, 2);
    vfs::reset();
    vfs::set_urandom(5, 4242);
    g_park_armed = true;
    vfs::urandom_set_read_hook(park_in_device_read);
    std::thread a([]() {
      uint8_t buf[64];
      try {
        phosg::random_data(buf, sizeof(buf));
      } catch (...) {
      }
    });
    {
      std::unique_lock<std::mutex> lk(g_park_mutex);
      g_park_cv.wait(lk, [] { return g_parked; });
    }
    pid_t gc = fork(); // thread A is inside the device read (and inside whatever the library holds around it)
    if (gc == 0) {
      vfs::urandom_set_read_hook(nullptr);
      alarm(3);
      int code = 0;
      try {
        std::string big(8192, '\0');
        phosg::random_data(big.data(), big.size());
        for (int i = 0; i < 100; i++) {
          int64_t v = phosg::random_int(1, 6);
          if (v < 1 || v > 6) code = 4;
        }
      } catch (const std::exception&) {
        code = 2;
      }
      _exit(code);
    }
    int st = 0;
    while (gc > 0 && waitpid(gc, &st, 0) < 0 && errno == EINTR) {
    }
    {
      std::unique_lock<std::mutex> lk(g_park_mutex);
      g_release = true;
      g_park_cv.notify_all();
    }
    a.join();
    int code = 0;
    if (gc < 0) code = 0;
    else if (WIFSIGNALED(st) && WTERMSIG(st) == SIGALRM) code = 5;
    else if (WIFEXITED(st)) code = WEXITSTATUS(st);
    else code = 6;
    _exit(code);
  }
  int status = 0;
  while (waitpid(pid, &status, 0) < 0 && errno == EINTR) {
  }
  if (WIFEXITED(status) && WEXITSTATUS(status) == 0) return;
  if (!g_fd0_probe_failure.empty()) return;
  g_probe_key = "fork_during_refill";
  if (WIFEXITED(status) && WEXITSTATUS(status) == 5) g_fd0_probe_failure = "a process forked while another of its threads was refilling from the entropy device; in the child random_data never returned (3 s): it waits for something only the vanished thread could release";
  else if (WIFEXITED(status) && WEXITSTATUS(status) == 2) g_fd0_probe_failure = "a process forked while another of its threads was refilling from the entropy device; in the child random_data threw";
  else if (WIFEXITED(status) && WEXITSTATUS(status) == 4) g_probe_key = "in_forked_child", g_fd0_probe_failure = "a process forked while another of its threads was refilling from the entropy device; in the child random_int left [lo,hi]";
  else g_fd0_probe_failure = "a process forked while another of its threads was refilling from the entropy device; the child died in random_data";
}

static void process_init() {
  vfs::simulate_getrandom(true);
  probe_first_use_with_descriptor_0();
  probe_first_use_without_free_descriptor();
  probe_fork_while_refilling();
  if (g_fd0_probe_failure.empty() && !g_static_init_failure.empty()) {
    g_fd0_probe_failure = g_static_init_failure;
    g_probe_key = "static_initialisation";
  }
  // random_data opens the device through a function-local static on its first call ever; do that
  // before any run so that every run starts from the same process state
  vfs::reset();
  std::thread t([]() { (void)phosg::random_object<uint8_t>(); });
  t.join();
}

int main(int argc, char** argv) {
  Engine e;
  e.process_init = process_init;
  e.property = "C20";
  e.name = "sim-rand";
  e.run = run;
  e.quick_runs = 60000;
  e.thorough_runs = 3000000;
  e.quick_cap_s = 120;
  e.thorough_cap_s = 1500;
  e.rule =
      "one run = a list of 1..8 calls (random_data into an exact-size heap block, random_data string form, random_object<uintN>, random_int(lo,hi)) "
      "executed twice on fresh threads against a simulated /dev/urandom (stream X, then its complement, same scripted short reads/EIO/EINTR); "
      "distinct = distinct event-log hash; non-trivial = more than one call or at least one device fault";
  e.assumptions = {
      "SCOPE: only the clause 'random_int(lo,hi) lies in [lo,hi] and random_data fills exactly the requested bytes' of C20 is decided; gcd, reduce_fraction, "
      "log2i, Vector2/3/4 and Matrix4 are pure functions, are not simulation targets and are NOT checked here",
      "hi-lo ranges up to 2^63-1, the largest span C20 quantifies over (hi-lo < 2^63)",
      "no statistical quality is claimed; adversarial entropy streams (all 00, all FF, 80 00.., alternating) are legal outputs of a random source"};
  e.components = {{"phosg Random.cc (random_data, random_int), Random.hh (random_object<T>), Filesystem.cc readx/scoped_fd", "real code from the repository working tree"},
      {"/dev/urandom", "stub: simulated device (vsim/vfs.cc), byte stream and fault script chosen per run"},
      {"gcd/reduce_fraction/log2i/Vector/Matrix4", "not exercised (pure; outside this technique)"}};
  e.expected_probes = {"adversarial_entropy_stream", "threw_on_device_fault", "random_int.lo_equals_hi", "random_int.negative_low", "random_int.range_at_width_boundary", "random_int.span_2_63_minus_1",
      "random_data.spans_refill", "random_data.exactly_buffer"};
  e.expected_faults = {"short_read@urandom", "EIO@urandom", "EINTR@urandom"};
  return driver_main(argc, argv, e);
}
