// sim-proc: C15 — run_process / Subprocess::communicate against a lock-stepped scripted child.
//
// Real: Process.cc (Subprocess constructor incl. its child branch up to execvp, run_process,
//       communicate, wait, kill, destructor), Filesystem.cc (Poll, pipe, make_fd_nonblocking), the
//       kernel's pipes, fork/exec and wait semantics.
// Controlled by the simulator: WHO RUNS. The child (vsim/child.c) performs exactly one non-blocking
//       step when told to over a control socket; the parent's poll/read/write/waitpid/kill/close/
//       gettimeofday calls are link-time wrapped and are the scheduling points at which a seeded number
//       of child steps is released. Blocking calls of the parent are emulated (never block in the
//       kernel), so "nobody can make a step" is detected as DEADLOCK by construction. Time is simulated.
#include <dirent.h>
#include <stdio_ext.h>
#include <errno.h>
#include <fcntl.h>
#include <poll.h>
#include <signal.h>
#include <string.h>
#include <sys/resource.h>
#include <sys/socket.h>
#include <sys/stat.h>
#include <sys/time.h>
#include <sys/wait.h>
#include <unistd.h>

#include <algorithm>
#include <optional>
#include <set>
#include <string>
#include <thread>
#include <vector>

#include "Process.hh"

#include "vsim.hh"

using namespace vsim;
using std::string;

// ------------------------------------------------------------------ protocol with vsim-child

namespace {

enum { ST_RUNNABLE = 0, ST_BLOCKED_READ = 1, ST_BLOCKED_W1 = 2, ST_BLOCKED_W2 = 3, ST_SLEEPING = 4, ST_EXITING = 5, ST_STOPPING = 6 };

struct Reply {
  uint8_t state;
  uint8_t stdin_eof;
  uint8_t out_closed;
  uint8_t exit_kind;
  int32_t exit_value;
  uint32_t pc;
  int32_t last_result;
  uint64_t aux;
  uint64_t read_total;
  uint64_t read_hash;
  uint64_t w1_total;
  uint64_t w2_total;
};

uint8_t pat(int s, uint64_t i) { return (uint8_t)((i * 131u + (unsigned)s * 17u + (i >> 8)) & 0xFF); }

struct Child {
  pid_t pid = -1;
  int ctl = -1;
  bool alive = false; // not yet a zombie
  bool zombie = false; // exited, not yet reaped by the code under test
  bool blocked = false;
  bool maybe_unblocked = false;
  bool sleeping = false;
  uint64_t wake = 0;
  bool ign_term = false;
  Reply last{};
  uint64_t steps = 0;
  int death_kind = 0; // 1 exit code, 2 signal
  int death_value = 0;
  uint64_t death_clock = 0;
  bool killed_by_parent = false;
  pid_t holder = -1; // passive grandchild created by a HOLD action
  unsigned inherited_nonblock = 0; // bit i: the child found its standard descriptor i in non-blocking mode
  bool stopped = false; // the child has stopped itself (SIGSTOP); continued by the simulator at `wake`
  int pending_fatal_sig = 0; // a fatal signal sent while it was stopped: takes effect when it is continued
};

struct Sim {
  bool armed = false;
  bool gave_up = false; // a violation was recorded: the child has been killed, wrappers pass through
  bool poisoned = false; // the code under test spins forever: make poll/read/write fail hard so it leaves its loop
  uint64_t clock = 0;
  uint64_t calls = 0; // wrapped parent calls
  uint64_t calls_after_child_exit = 0;
  Child ch;
  int speed = 1; // 0 starved child, 1 normal, 2 eager child
  uint32_t eintr_den = 0, eagain_den = 0, clamp_den = 0, stall_den = 0;
  size_t pipe_capacity = 0;
  bool expect_exec_failure = false; // the command does not exist: the forked child leaves through phosg's own error path
  unsigned close_fd0 = 0; // bit mask: the calling process has no descriptor 0 and/or 1 (daemon): pipe() hands those out
  uint64_t step_budget = 40000;
  uint64_t call_budget = 150000;
  int kills_sent = 0;
  uint64_t first_kill_clock = 0;
  int first_kill_sig = 0;
  std::vector<int> ign_term_pcs;
  std::set<int> parent_pipe_fds; // descriptors created by pipe() while armed
  std::vector<int> pipe_fd_order; // creation order: events log the index, never the raw number
  int fork_count = 0;
  bool deadlock = false;
  uint64_t stall_total = 0; // simulated time added by injected parent stalls
  uint64_t spin_start_clock = 0, max_jump = 0; // busy-wait handling (see sched_point)
  uint64_t quiet_calls = 0;
  uint64_t read_by_index[8] = {0, 0, 0, 0, 0, 0, 0, 0}; // bytes the parent has read per pipe descriptor (creation order)
  uint64_t unread_stdout_at_exit = 0; // consecutive parent calls during which nothing in the world changed
  // a periodic signal with a handler (an interval timer, say) is delivered to the calling process: a poll()
  // that would sleep across a tick returns EINTR at the tick
  uint64_t heartbeat_us = 0;
  // another thread of the calling process opens a descriptor of its own right after the code under test closed
  // one (it gets the lowest free number, usually the one just released); it must survive the call
  uint32_t foreign_den = 0;
  std::vector<int> foreign_fds;
  string foreign_failure;
  // another thread of the calling process runs a whole run_process of its own while this call is parked at the
  // return of its k-th successful read()
  unsigned intruder_at = 0, read_returns = 0;
  bool intruder_ran = false;
  string intruder_failure;
  // a descendant of the child (a daemonised helper, a background job) that inherited the child's stdout: it keeps
  // the pipe open after the child's exit and writes a little every 200 ms of simulated time for as long as the call
  // lasts. Played by the simulator itself through a duplicate of the pipe's write end.
  bool descendant = false;
  int desc_fd = -1, desc_err_fd = -1;
  uint64_t desc_next_tick = 0, desc_written = 0;
  int entry_errno = 0; // errno as the call under test finds it
  string state_diff; // process-wide state the call left changed
};

Sim g;
string g_child_path;

} // namespace

extern "C" {
pid_t __real_fork(void);
pid_t __real_waitpid(pid_t, int*, int);
int __real_kill(pid_t, int);
int __real_poll(struct pollfd*, nfds_t, int);
ssize_t __real_read(int, void*, size_t);
ssize_t __real_write(int, const void*, size_t);
int __real_close(int);
int __real_gettimeofday(struct timeval*, void*);
int __real_pipe(int[2]);
int __real_pipe2(int[2], int);
int __real_ppoll(struct pollfd*, nfds_t, const struct timespec*, const sigset_t*);
pid_t __real_wait4(pid_t, int*, int, struct rusage*);
int __real_waitid(idtype_t, id_t, siginfo_t*, int);
}

namespace {

void real_write_all(int fd, const void* p, size_t n) {
  size_t off = 0;
  while (off < n) {
    ssize_t r = __real_write(fd, (const char*)p + off, n - off);
    if (r < 0 && errno == EINTR) continue;
    if (r <= 0) harness_bug("control socket write failed");
    off += r;
  }
}

bool real_read_all(int fd, void* p, size_t n) {
  size_t off = 0;
  while (off < n) {
    ssize_t r = __real_read(fd, (char*)p + off, n - off);
    if (r < 0 && errno == EINTR) continue;
    if (r <= 0) return false;
    off += r;
  }
  return true;
}

void wait_zombie() {
  siginfo_t si;
  memset(&si, 0, sizeof(si));
  while (__real_waitid(P_PID, g.ch.pid, &si, WEXITED | WNOWAIT) < 0) {
    if (errno == EINTR) continue;
    if (errno == ECHILD) break; // already reaped (should not happen here)
    harness_bug("waitid failed");
  }
  g.ch.alive = false;
  g.ch.zombie = true;
  g.ch.death_clock = g.clock;
  g.unread_stdout_at_exit = g.ch.last.w1_total > g.read_by_index[2] ? g.ch.last.w1_total - g.read_by_index[2] : 0;
}

// Abandon the simulation after a violation: make sure nothing can block any more.
void give_up() {
  if (g.gave_up) return;
  g.gave_up = true;
  if (g.ch.pid > 0 && g.ch.alive) {
    __real_kill(g.ch.pid, SIGKILL);
    wait_zombie();
  }
}

void sim_fail(const string& cls, const string& key, const string& msg) {
  fail_soft(cls, key, msg);
  give_up();
  if (cls.rfind("liveness/", 0) == 0) g.poisoned = true;
}

void wait_zombie();

// End of a simulated sleep. A child that had stopped itself is continued for real here (SIGCONT); a fatal
// signal that was sent to it meanwhile takes effect now.
void wake_child() {
  Child& c = g.ch;
  c.sleeping = false;
  if (!c.stopped) return;
  c.stopped = false;
  __real_kill(c.pid, SIGCONT);
  if (c.pending_fatal_sig) {
    c.death_kind = 2;
    c.death_value = c.pending_fatal_sig;
    c.killed_by_parent = true;
    wait_zombie();
    ev("child.continued_and_died", c.pending_fatal_sig);
    return;
  }
  Reply r;
  if (!real_read_all(c.ctl, &r, sizeof(r))) harness_bug("the child did not come back after SIGCONT");
  c.last = r;
  ev("child.continued");
}

bool child_ready_to_step() {
  Child& c = g.ch;
  if (!c.alive) return false;
  if (c.sleeping) {
    if (g.clock >= c.wake) {
      wake_child();
      if (!c.alive) return false;
    } else return false;
  }
  if (c.blocked && !c.maybe_unblocked) return false;
  return true;
}

void child_step() {
  Child& c = g.ch;
  char cmd = 'S';
  real_write_all(c.ctl, &cmd, 1);
  Reply r;
  if (!real_read_all(c.ctl, &r, sizeof(r))) harness_bug("child vanished without announcing its exit");
  c.last = r;
  c.steps++;
  g.quiet_calls = 0;
  g.clock += 5;
  c.blocked = false;
  c.maybe_unblocked = false;
  ev("child", r.pc, r.state, (uint64_t)(int64_t)r.last_result);
  switch (r.state) {
    case ST_BLOCKED_READ:
    case ST_BLOCKED_W1:
    case ST_BLOCKED_W2:
      c.blocked = true;
      break;
    case ST_SLEEPING:
      c.sleeping = true;
      c.wake = g.clock + r.aux;
      break;
    case ST_STOPPING: {
      // wait until the stop has taken effect (WNOWAIT: the event stays there for the code under test to see,
      // should it ask for stopped children)
      siginfo_t si;
      memset(&si, 0, sizeof(si));
      while (__real_waitid(P_PID, c.pid, &si, WSTOPPED | WNOWAIT) < 0) {
        if (errno == EINTR) continue;
        harness_bug("waitid(WSTOPPED) failed");
      }
      c.stopped = true;
      c.sleeping = true;
      c.wake = g.clock + r.aux;
      VS_FAULT("child_stopped_by_SIGSTOP");
      break;
    }
    case ST_RUNNABLE:
      if (r.aux && c.holder < 0) c.holder = (pid_t)r.aux; // reply to HOLD
      break;
    case ST_EXITING:
      c.death_kind = r.exit_kind;
      c.death_value = r.exit_value;
      wait_zombie();
      break;
    default:
      break;
  }
  for (int pc : g.ign_term_pcs)
    if ((int)r.pc > pc) c.ign_term = true;
  if (c.steps > g.step_budget && !g.gave_up) sim_fail("liveness/exchange_never_ends", "child_step_budget", "the child has made 40000 steps and the call still has not finished: the exchange between parent and child never ends");
}

bool descendant_active();
void descendant_tick();

// A scheduling point of the parent: time passes, the child may run.
void sched_point(const char* what, uint64_t arg = 0) {
  g.calls++;
  if (!g.ch.alive && g.ch.pid > 0) g.calls_after_child_exit++;
  uint64_t cost = 1 + choose(40, "cost");
  if (g.stall_den && chance(1, g.stall_den, "stall")) {
    uint64_t stall = 10000 + (uint64_t)choose(490, "stall.ms") * 1000;
    cost += stall;
    g.stall_total += stall;
    VS_FAULT("parent_stall");
  }
  g.clock += cost;
  unsigned k = 0;
  switch (g.speed) {
    case 0: k = choose(8, "steps.starved") == 7 ? 1 : 0; break;
    case 1: {
      unsigned m = choose(6, "steps");
      k = m <= 2 ? m : (m == 3 ? 1 + choose(8, "steps.few") : (m == 4 ? choose(64, "steps.many") : 300));
      break;
    }
    default: k = 300; break;
  }
  ev(what, arg, k);
  for (unsigned i = 0; i < k && child_ready_to_step() && !g.gave_up; i++) child_step();
  if (descendant_active() && g.clock >= g.desc_next_tick && !g.gave_up) descendant_tick();
  // Busy-waiting parent: nothing has changed for many calls. If the child is merely asleep this is a
  // (legal) long delay of the parent - jump to the child's wake-up instead of simulating every spin.
  // If the child is blocked for good or gone, spinning forever is a liveness failure.
  if (g.quiet_calls == 0) g.spin_start_clock = g.clock;
  if (++g.quiet_calls > 200 && !g.gave_up) {
    if (g.ch.alive && g.ch.sleeping) {
      // Jump towards the child's wake-up, but never by more than a quarter of the time already spent
      // spinning (at least 0.5 s): a deadline the parent is itself waiting for can then be overshot by at
      // most that much, which the liveness bound adds back (max_jump).
      uint64_t left = g.ch.wake > g.clock ? g.ch.wake - g.clock : 0;
      uint64_t jump = std::min<uint64_t>(left, std::max<uint64_t>(500000, (g.clock - g.spin_start_clock) / 4));
      add_sim_time_us(jump);
      g.clock += jump;
      g.max_jump = std::max(g.max_jump, jump);
      if (g.clock >= g.ch.wake) wake_child();
      g.quiet_calls = 1; // still the same spin: keep spin_start_clock
      VS_PROBE("parent_busy_wait_skipped");
    } else if (g.quiet_calls > 20000) {
      sim_fail("liveness/livelock", g.ch.alive ? "child_blocked" : "child_gone",
          string("the parent keeps making system calls (20000 in a row) without any data moving while the child ") + (g.ch.alive ? "is blocked on a pipe" : "has exited") + ": it never returns");
    }
  }
  if (g.calls > g.call_budget && !g.gave_up) sim_fail("liveness/no_termination", "call_budget", "the call under test issued more than 150000 system calls without finishing");
}

// Lets the world move while the parent is blocked. Returns false if nothing can ever change
// (deadlock) or, with a deadline, when the deadline has been reached.
enum Progress { MOVED, DEADLINE, STUCK };
bool descendant_active() { return g.desc_fd >= 0 && g.ch.pid > 0 && !g.ch.alive; }

void descendant_tick() {
  struct pollfd p = {g.desc_fd, POLLOUT, 0};
  if (__real_poll(&p, 1, 0) > 0 && (p.revents & POLLOUT) && !(p.revents & (POLLERR | POLLHUP))) {
    static const char TICK[] = "ddddd";
    ssize_t n = __real_write(g.desc_fd, TICK, 5);
    if (n > 0) {
      g.desc_written += n;
      g.quiet_calls = 0;
      VS_FAULT("descendant_writes_after_exit");
      ev("descendant.tick", n);
    }
  }
  g.desc_next_tick = g.clock + 200000;
}

Progress let_world_move(bool has_deadline, uint64_t deadline) {
  if (descendant_active() && (!has_deadline || g.desc_next_tick < deadline)) {
    if (g.desc_next_tick > g.clock) {
      add_sim_time_us(g.desc_next_tick - g.clock);
      g.clock = g.desc_next_tick;
    }
    descendant_tick();
    return MOVED;
  }
  bool was_alive = g.ch.alive;
  bool ready = child_ready_to_step();
  // (waking a stopped child can be the end of it: a fatal signal sent while it was stopped acts now)
  if (!ready && was_alive && !g.ch.alive) return MOVED;
  if (ready) {
    unsigned k = 1 + choose(4, "blocked.steps");
    for (unsigned i = 0; i < k && child_ready_to_step() && !g.gave_up; i++) child_step();
    if (has_deadline && g.clock >= deadline) return DEADLINE;
    return MOVED;
  }
  if (g.ch.alive && g.ch.sleeping) {
    uint64_t t = g.ch.wake;
    if (has_deadline && deadline <= t) {
      add_sim_time_us(deadline > g.clock ? deadline - g.clock : 0);
      g.clock = std::max(g.clock, deadline);
      return DEADLINE;
    }
    add_sim_time_us(t > g.clock ? t - g.clock : 0);
    g.clock = std::max(g.clock, t);
    wake_child();
    VS_PROBE("clock_jumped_over_child_sleep");
    return MOVED;
  }
  if (has_deadline) {
    add_sim_time_us(deadline > g.clock ? deadline - g.clock : 0);
    g.clock = std::max(g.clock, deadline);
    return DEADLINE;
  }
  return STUCK;
}

string describe_stuck(const string& parent_call) {
  Child& c = g.ch;
  string s = "the parent is blocked in " + parent_call + " and ";
  if (!c.alive) s += "the child has exited";
  else if (c.blocked) s += string("the child is blocked ") + (c.last.state == ST_BLOCKED_READ ? "reading its stdin" : (c.last.state == ST_BLOCKED_W1 ? "writing its stdout (pipe full)" : "writing its stderr (pipe full)"));
  else s += "the child cannot make a step";
  return s + ": nobody can ever make progress";
}

uint64_t fd_index(int fd) {
  for (size_t i = 0; i < g.pipe_fd_order.size(); i++)
    if (g.pipe_fd_order[i] == fd) return i;
  return 99;
}

void run_intruder();

bool is_nonblocking(int fd) {
  int fl = fcntl(fd, F_GETFL, 0);
  return fl >= 0 && (fl & O_NONBLOCK);
}

// The second caller: a real thread that runs a complete, unsimulated run_process (a real /bin/echo) while the
// call under test is parked. Its timing is the operating system's, but nothing of it enters the event log and
// its result is fixed, so the run stays a function of the tape.
void run_intruder() {
  bool was_armed = g.armed;
  g.armed = false;
  g.intruder_ran = true;
  mark_os_timing();
  string text(3000 + 17 * (g.read_returns % 7), 'B');
  text += "<end of the second caller's text>";
  std::thread t([&]() {
    // (a real fork/exec can fail for lack of resources on a loaded machine: that is not a verdict about the
    // library, so the call is tried up to three times and only a failure of all three is recorded)
    for (int attempt = 0; attempt < 3; attempt++) {
      g.intruder_failure.clear();
      try {
        auto r = phosg::run_process({"/bin/echo", "-n", text}, nullptr, true, nullptr, nullptr, 0);
        if (r.stdout_contents != text) g.intruder_failure = "its run_process of /bin/echo returned " + std::to_string(r.stdout_contents.size()) + " bytes of stdout that are not the " + std::to_string(text.size()) + " bytes echo wrote";
        else if (!r.stderr_contents.empty()) g.intruder_failure = "its run_process of /bin/echo returned " + std::to_string(r.stderr_contents.size()) + " bytes of stderr although echo wrote none";
      } catch (const std::exception& e) {
        g.intruder_failure = string("its run_process of /bin/echo threw: ") + e.what();
      }
      if (g.intruder_failure.empty()) break;
      usleep(20000);
    }
  });
  t.join();
  g.armed = was_armed;
  ev("second_caller.done");
  VS_FAULT("second_caller_during_read");
}

// Closes the other thread's descriptors again; any that did not survive the call is recorded.
void finish_foreign() {
  if (g.desc_fd >= 0) {
    __real_close(g.desc_fd);
    g.desc_fd = -1;
  }
  if (g.desc_err_fd >= 0) {
    __real_close(g.desc_err_fd);
    g.desc_err_fd = -1;
  }
  static dev_t null_dev = [] {
    struct stat st;
    return stat("/dev/null", &st) == 0 ? st.st_rdev : (dev_t)0;
  }();
  for (size_t i = 0; i < g.foreign_fds.size(); i++) {
    int fd = g.foreign_fds[i];
    struct stat st;
    bool intact = fstat(fd, &st) == 0 && S_ISCHR(st.st_mode) && st.st_rdev == null_dev;
    if (!intact && g.foreign_failure.empty()) {
      g.foreign_failure = "a descriptor that another thread opened during the call (number " + string(i == 0 ? "just released by the call" : "released earlier by the call") +
          ") was closed or replaced by the call: it closed a descriptor number it no longer owned";
    }
    if (intact) __real_close(fd);
  }
  g.foreign_fds.clear();
}

} // namespace

// ------------------------------------------------------------------ link-time wrappers (parent side)

extern "C" {

pid_t __wrap_fork(void) {
  if (!g.armed) return __real_fork();
  int sv[2];
  if (socketpair(AF_UNIX, SOCK_STREAM | SOCK_CLOEXEC, 0, sv)) harness_bug("socketpair failed");
  pid_t pid = __real_fork();
  if (pid < 0) harness_bug("fork failed");
  if (pid == 0) {
    // child: from here on it is an ordinary process running phosg's child branch up to execvp
    g.armed = false;
    dup2(sv[1], 200); // dup2 clears CLOEXEC on the new descriptor
    return 0;
  }
  __real_close(sv[1]);
  g.fork_count++;
  Child& c = g.ch;
  c = Child();
  c.pid = pid;
  c.ctl = sv[0];
  c.alive = true;
  Reply hello;
  if (!real_read_all(c.ctl, &hello, sizeof(hello))) {
    // exec failed: phosg's child branch has left through _exit(1) (all its descriptors are closed)
    if (!g.expect_exec_failure) harness_bug("the scripted child did not start (exec of vsim-child failed?)");
    memset(&hello, 0, sizeof(hello));
    hello.read_hash = 0xCBF29CE484222325ULL; // hash of "nothing read"
    c.death_kind = 1;
    c.death_value = 1;
    wait_zombie();
    VS_PROBE("exec_failed_in_child");
  }
  c.last = hello;
  c.inherited_nonblock = (unsigned)hello.aux;
  c.last.aux = 0;
  ev("fork", c.inherited_nonblock);
  return pid;
}

// std::chrono clocks used by repository code (vsim/clock_shim.hh): the same simulated clock
unsigned long long vsim_sim_clock_us(void) {
  if (!g.armed) {
    struct timespec ts;
    clock_gettime(CLOCK_MONOTONIC, &ts);
    return (unsigned long long)ts.tv_sec * 1000000ULL + (unsigned long long)ts.tv_nsec / 1000;
  }
  g.clock += 1;
  return g.clock;
}

int __wrap_gettimeofday(struct timeval* tv, void* tz) {
  if (!g.armed) return __real_gettimeofday(tv, tz);
  g.clock += 1;
  tv->tv_sec = g.clock / 1000000;
  tv->tv_usec = g.clock % 1000000;
  return 0;
}

static void adopt_descendant_end(int write_fd) {
  // the second pipe of a call is the child's stdout: the descendant's copy of its write end
  if (g.descendant && g.desc_fd < 0 && g.pipe_fd_order.size() == 4) g.desc_fd = fcntl(write_fd, F_DUPFD_CLOEXEC, 210);
  // ... and the third is its stderr, which the descendant inherited just the same (it stays silent on it)
  if (g.descendant && g.desc_err_fd < 0 && g.pipe_fd_order.size() == 6) g.desc_err_fd = fcntl(write_fd, F_DUPFD_CLOEXEC, 210);
}

int __wrap_pipe(int fds[2]) {
  int r = __real_pipe(fds);
  if (!g.armed || r) return r;
  if (g.pipe_capacity) fcntl(fds[1], F_SETPIPE_SZ, (int)g.pipe_capacity);
  g.parent_pipe_fds.insert(fds[0]);
  g.parent_pipe_fds.insert(fds[1]);
  g.pipe_fd_order.push_back(fds[0]);
  g.pipe_fd_order.push_back(fds[1]);
  adopt_descendant_end(fds[1]);
  return r;
}

int __wrap_pipe2(int fds[2], int flags) {
  int r = __real_pipe2(fds, flags);
  if (!g.armed || r) return r;
  if (g.pipe_capacity) fcntl(fds[1], F_SETPIPE_SZ, (int)g.pipe_capacity);
  g.parent_pipe_fds.insert(fds[0]);
  g.parent_pipe_fds.insert(fds[1]);
  g.pipe_fd_order.push_back(fds[0]);
  g.pipe_fd_order.push_back(fds[1]);
  adopt_descendant_end(fds[1]);
  return r;
}

int __wrap_poll(struct pollfd* pfds, nfds_t n, int timeout_ms);
int __wrap_ppoll(struct pollfd* pfds, nfds_t n, const struct timespec* ts, const sigset_t* mask) {
  if (!g.armed) return __real_ppoll(pfds, n, ts, mask);
  int ms = ts ? (int)(ts->tv_sec * 1000 + (ts->tv_nsec + 999999) / 1000000) : -1;
  return __wrap_poll(pfds, n, ms);
}

pid_t __wrap_waitpid(pid_t pid, int* status, int options);
pid_t __wrap_wait4(pid_t pid, int* status, int options, struct rusage* ru) {
  if (!g.armed || pid != g.ch.pid) return __real_wait4(pid, status, options, ru);
  if (ru) memset(ru, 0, sizeof(*ru));
  return __wrap_waitpid(pid, status, options);
}

int __wrap_poll(struct pollfd* pfds, nfds_t n, int timeout_ms) {
  if (!g.armed) return __real_poll(pfds, n, timeout_ms);
  if (g.poisoned) {
    errno = EIO; // ends the endless loop of the code under test through its own error path
    return -1;
  }
  if (g.gave_up) return __real_poll(pfds, n, 0);
  sched_point("poll", n);
  if (g.poisoned) {
    errno = EIO;
    return -1;
  }
  if (g.gave_up) return __real_poll(pfds, n, 0);
  if (g.eintr_den && chance(1, g.eintr_den, "poll.eintr")) {
    VS_FAULT("EINTR@poll");
    ev("poll.EINTR");
    errno = EINTR;
    return -1;
  }
  bool has_deadline = timeout_ms >= 0;
  uint64_t deadline = g.clock + (uint64_t)std::max(timeout_ms, 0) * 1000;
  bool tick_first = false;
  if (g.heartbeat_us) {
    uint64_t tick = (g.clock / g.heartbeat_us + 1) * g.heartbeat_us;
    if (!has_deadline || tick < deadline) {
      tick_first = true;
      has_deadline = true;
      deadline = tick;
    }
  }
  for (;;) {
    int r = __real_poll(pfds, n, 0);
    if (r != 0 || timeout_ms == 0) {
      uint64_t summary = 0; // (pipe index, revents) of every ready descriptor, for the trace
      for (nfds_t i = 0; i < n; i++)
        if (pfds[i].revents) summary = summary * 1000 + fd_index(pfds[i].fd) * 100 + (pfds[i].revents & 0x3F);
      ev("poll.ret", (uint64_t)(int64_t)r, summary);
      return r;
    }
    if (n == 0 && timeout_ms < 0) {
      sim_fail("deadlock", "poll_on_nothing", "poll() with no descriptors and no timeout never returns");
      return 0;
    }
    Progress p = let_world_move(has_deadline, deadline);
    if (g.gave_up) return __real_poll(pfds, n, 0);
    if (p == DEADLINE) {
      int rr = __real_poll(pfds, n, 0);
      if (tick_first && rr == 0) {
        VS_FAULT("EINTR@poll(periodic_signal)");
        ev("poll.EINTR.tick");
        errno = EINTR;
        return -1;
      }
      ev("poll.timeout", (uint64_t)(int64_t)rr);
      VS_PROBE("poll_timed_out");
      return rr;
    }
    if (p == STUCK) {
      g.deadlock = true;
      sim_fail("deadlock", "poll", describe_stuck("poll() without timeout"));
      return __real_poll(pfds, n, 0);
    }
  }
}

ssize_t __wrap_read(int fd, void* buf, size_t n) {
  if (g.armed && g.poisoned && g.parent_pipe_fds.count(fd)) {
    errno = EIO;
    return -1;
  }
  if (!g.armed || g.gave_up || !g.parent_pipe_fds.count(fd)) return __real_read(fd, buf, n);
  sched_point("read", n * 100 + fd_index(fd));
  if (g.gave_up) return __real_read(fd, buf, n);
  bool nb = is_nonblocking(fd);
  if (nb) {
    if (g.eagain_den && g.ch.alive && chance(1, g.eagain_den, "read.eagain")) {
      VS_FAULT("spurious_EAGAIN@read");
      ev("read.EAGAIN");
      errno = EAGAIN;
      return -1;
    }
  } else {
    // emulate a blocking read: wait (in simulated terms) until the descriptor is readable
    for (;;) {
      struct pollfd p = {fd, POLLIN, 0};
      int pr = __real_poll(&p, 1, 0);
      if (pr > 0) break;
      Progress pg = let_world_move(false, 0);
      if (g.gave_up) return __real_read(fd, buf, n);
      if (pg == STUCK) {
        g.deadlock = true;
        sim_fail("deadlock", "blocking_read", describe_stuck("a blocking read()"));
        errno = EIO;
        return -1;
      }
    }
  }
  size_t ask = n;
  if (g.clamp_den && n > 1 && chance(1, g.clamp_den, "read.clamp")) {
    ask = 1 + choose_range(0, n - 2, "read.clamp.len");
    VS_FAULT("short_read");
  }
  ssize_t r = __real_read(fd, buf, ask);
  int e = errno;
  ev("read.ret", (uint64_t)(int64_t)r, ask);
  if (r > 0) {
    g.ch.maybe_unblocked = true;
    g.quiet_calls = 0;
    if (fd_index(fd) < 8) g.read_by_index[fd_index(fd)] += r;
    hash_bytes(buf, r);
    if (g.intruder_at && ++g.read_returns == g.intruder_at) run_intruder();
  }
  errno = e;
  return r;
}

ssize_t __wrap_write(int fd, const void* buf, size_t n) {
  if (g.armed && g.poisoned && g.parent_pipe_fds.count(fd)) {
    errno = EIO;
    return -1;
  }
  if (!g.armed || g.gave_up || !g.parent_pipe_fds.count(fd)) return __real_write(fd, buf, n);
  sched_point("write", n * 100 + fd_index(fd));
  if (g.gave_up) return __real_write(fd, buf, n);
  bool nb = is_nonblocking(fd);
  if (nb) {
    if (g.eagain_den && g.ch.alive && chance(1, g.eagain_den, "write.eagain")) {
      VS_FAULT("spurious_EAGAIN@write");
      ev("write.EAGAIN");
      errno = EAGAIN;
      return -1;
    }
    size_t ask = n;
    // POSIX: a write of at most PIPE_BUF bytes is atomic; larger ones may be partial
    if (g.clamp_den && n > 2 * 4096 && chance(1, g.clamp_den, "write.clamp")) {
      ask = 4096 + choose_range(0, n - 4096 - 1, "write.clamp.len");
      VS_FAULT("short_write");
    }
    ssize_t r = __real_write(fd, buf, ask);
    int e = errno;
    ev("write.ret", (uint64_t)(int64_t)r, ask);
    if (r > 0) {
      g.ch.maybe_unblocked = true;
      g.quiet_calls = 0;
    }
    errno = e;
    return r;
  }
  // blocking write: the kernel would not return before every byte is in the pipe (or the reader is
  // gone). Emulate with non-blocking writes and let the child run in between.
  int fl = fcntl(fd, F_GETFL, 0);
  fcntl(fd, F_SETFL, fl | O_NONBLOCK);
  size_t off = 0;
  ssize_t result = -1;
  int result_errno = 0;
  for (;;) {
    ssize_t r = __real_write(fd, (const char*)buf + off, n - off);
    if (r > 0) {
      off += r;
      g.ch.maybe_unblocked = true;
      if (off == n) {
        result = n;
        break;
      }
      continue;
    }
    if (r < 0 && errno != EAGAIN && errno != EWOULDBLOCK) {
      if (off > 0) {
        result = off;
      } else {
        result = -1;
        result_errno = errno;
      }
      break;
    }
    VS_PROBE("blocking_write_waited_for_reader");
    Progress pg = let_world_move(false, 0);
    if (g.gave_up) {
      result = off ? (ssize_t)off : -1;
      result_errno = EPIPE;
      break;
    }
    if (pg == STUCK) {
      g.deadlock = true;
      sim_fail("deadlock", "blocking_write", describe_stuck("a blocking write() of " + std::to_string(n) + " bytes (" + std::to_string(off) + " accepted by the pipe)"));
      result = off ? (ssize_t)off : -1;
      result_errno = EPIPE;
      break;
    }
  }
  fcntl(fd, F_SETFL, fl);
  ev("write.blocking.ret", (uint64_t)(int64_t)result, n);
  errno = result_errno;
  return result;
}

int __wrap_close(int fd) {
  if (!g.armed || !g.parent_pipe_fds.count(fd)) return __real_close(fd);
  if (!g.gave_up) sched_point("close", fd_index(fd));
  g.parent_pipe_fds.erase(fd);
  g.quiet_calls = 0;
  int r = __real_close(fd);
  g.ch.maybe_unblocked = true;
  if (g.foreign_den && !g.gave_up && g.foreign_fds.size() < 6 && chance(1, g.foreign_den, "foreign.open")) {
    int nf = open("/dev/null", O_RDONLY | O_CLOEXEC);
    if (nf >= 0) {
      g.foreign_fds.push_back(nf);
      ev("foreign.open", nf == fd);
      VS_FAULT("other_thread_reuses_fd_number");
    }
  }
  return r;
}

pid_t __wrap_waitpid(pid_t pid, int* status, int options) {
  if (!g.armed || pid != g.ch.pid) return __real_waitpid(pid, status, options);
  if (g.gave_up) {
    pid_t r = __real_waitpid(pid, status, options);
    if (r == pid) g.ch.zombie = false;
    return r;
  }
  sched_point("waitpid", options);
  if (g.gave_up) return __wrap_waitpid(pid, status, options);
  if (!(options & WNOHANG)) {
    if (g.eintr_den && chance(1, g.eintr_den, "waitpid.eintr")) {
      VS_FAULT("EINTR@waitpid");
      errno = EINTR;
      return -1;
    }
    while (g.ch.alive) {
      Progress pg = let_world_move(false, 0);
      if (g.gave_up) return __wrap_waitpid(pid, status, options);
      if (pg == STUCK) {
        g.deadlock = true;
        sim_fail("deadlock", "blocking_waitpid", describe_stuck("waitpid()"));
        return __wrap_waitpid(pid, status, options);
      }
    }
    VS_PROBE("blocking_waitpid");
  }
  pid_t r = __real_waitpid(pid, status, options | WNOHANG);
  int e = errno;
  ev("waitpid.ret", r == pid ? 1 : (uint64_t)(int64_t)r);
  if (r == pid) {
    g.ch.zombie = false;
  }
  errno = e;
  return r;
}

int __wrap_waitid(idtype_t t, id_t id, siginfo_t* si, int options) {
  if (!g.armed || t != P_PID || (pid_t)id != g.ch.pid || g.gave_up) return __real_waitid(t, id, si, options);
  sched_point("waitid", options);
  if (g.gave_up) return __real_waitid(t, id, si, options);
  if (!(options & WNOHANG)) {
    if (g.eintr_den && chance(1, g.eintr_den, "waitid.eintr")) {
      VS_FAULT("EINTR@waitpid");
      errno = EINTR;
      return -1;
    }
    while (g.ch.alive && !((options & WSTOPPED) && g.ch.stopped)) {
      Progress pg = let_world_move(false, 0);
      if (g.gave_up) return __real_waitid(t, id, si, options | WNOHANG);
      if (pg == STUCK) {
        g.deadlock = true;
        sim_fail("deadlock", "blocking_waitid", describe_stuck("waitid()"));
        return __real_waitid(t, id, si, options | WNOHANG);
      }
    }
  }
  if (si) memset(si, 0, sizeof(*si));
  int r = __real_waitid(t, id, si, options | WNOHANG);
  int e = errno;
  bool got = r == 0 && si && si->si_pid == g.ch.pid;
  ev("waitid.ret", got ? 1 : (uint64_t)(int64_t)r);
  if (got && !(options & WNOWAIT) && (si->si_code == CLD_EXITED || si->si_code == CLD_KILLED || si->si_code == CLD_DUMPED)) g.ch.zombie = false;
  errno = e;
  return r;
}

int __wrap_kill(pid_t pid, int sig) {
  if (!g.armed || pid != g.ch.pid) return __real_kill(pid, sig);
  if (!g.gave_up) sched_point("kill", sig);
  int r = __real_kill(pid, sig);
  ev("kill.ret", sig, (uint64_t)(int64_t)r);
  if (sig != 0 && r == 0) {
    if (g.kills_sent++ == 0) {
      g.first_kill_clock = g.clock;
      g.first_kill_sig = sig;
    }
    bool fatal = sig == SIGKILL || (sig == SIGTERM && !g.ch.ign_term) || (sig != SIGTERM && sig != SIGCHLD && sig != SIGCONT && sig != SIGURG && sig != SIGWINCH);
    if (fatal && g.ch.alive && g.ch.stopped && sig != SIGKILL) {
      // a stopped process does not act on a signal (other than SIGKILL and SIGCONT) until it is continued
      if (!g.ch.pending_fatal_sig) g.ch.pending_fatal_sig = sig;
    } else if (fatal && g.ch.alive) {
      g.ch.death_kind = 2;
      g.ch.death_value = sig;
      g.ch.killed_by_parent = true;
      wait_zombie();
    }
  }
  return r;
}

} // extern "C"

// ------------------------------------------------------------------ scenarios

namespace {

std::set<int> open_fds() {
  std::set<int> s;
  DIR* d = opendir("/proc/self/fd");
  if (!d) harness_bug("cannot list /proc/self/fd");
  int self = dirfd(d);
  while (struct dirent* e = readdir(d)) {
    if (e->d_name[0] == '.') continue;
    int fd = atoi(e->d_name);
    if (fd != self) s.insert(fd);
  }
  closedir(d);
  return s;
}

struct Script {
  string text;
  bool stops_itself = false;
  bool reads_to_eof = false; // the child consumes stdin until EOF (if nothing kills it first)
  bool uses_cat = false;
  uint64_t w1 = 0, w2 = 0; // pattern bytes the script writes (if it runs to completion)
  uint64_t total_sleep = 0;
  int exit_kind = 1, exit_value = 0;
  bool closes_stdin_early = false;
  bool ignores_term = false;
  bool holds_pipes = false; // a passive grandchild keeps stdout/stderr open after the child's exit
  string family;
};

uint64_t draw_bytes(const char* site) {
  return pick({0, 1, 100, 4095, 4096, 4097, 65535, 65536, 65537, 200 * 1024, 1024 * 1024, 20000}, site);
}

uint64_t chunk_for(uint64_t n) {
  // bound the number of child steps: at most ~400 steps per action
  uint64_t min_chunk = std::max<uint64_t>(1, n / 400 + 1);
  uint64_t c = pick({4096, 1, 512, 65536, 1000, 16384}, "chunk");
  return std::max(c, min_chunk);
}

string act_w(int fd, uint64_t n) { return string("W") + std::to_string(fd) + ":" + std::to_string(n) + ":" + std::to_string(chunk_for(n)); }

Script gen_script(bool for_communicate, size_t pipe_cap) {
  Script s;
  std::vector<string> a;
  unsigned fam = choose(12, "family");
  auto sleep_act = [&](const char* site) {
    uint64_t us = pick({1000, 1, 50000, 900000, 1500000, 3000000, 30000000, 3600000000ULL}, site);
    s.total_sleep += us;
    return "SLEEP:" + std::to_string(us);
  };
  auto add_out = [&](int fd, uint64_t n) {
    // communicate() does not drain stderr by design: keep the TOTAL below half a pipe
    if (for_communicate && fd == 2) n = std::min<uint64_t>(n, pipe_cap / 2 > s.w2 ? pipe_cap / 2 - s.w2 : 0);
    if (!n) return;
    a.push_back(act_w(fd, n));
    (fd == 1 ? s.w1 : s.w2) += n;
  };
  switch (fam) {
    case 0: // read everything, then write
      s.family = "read_all_then_write";
      a.push_back("RA");
      s.reads_to_eof = true;
      add_out(1, draw_bytes("out1"));
      if (choose(2, "with_err")) add_out(2, draw_bytes("out2"));
      break;
    case 1: // write first, then read
      s.family = "write_then_read";
      add_out(1, draw_bytes("out1"));
      if (choose(2, "with_err")) add_out(2, draw_bytes("out2"));
      a.push_back("RA");
      s.reads_to_eof = true;
      break;
    case 2: // cat
      s.family = "cat";
      a.push_back("CAT:" + std::to_string(pick({4096, 512, 65536, 16384}, "cat.chunk")));
      s.reads_to_eof = true;
      s.uses_cat = true;
      break;
    case 3: // interleaved out/err, reads in between
      s.family = "interleaved";
      for (unsigned i = 0, n = 2 + choose(4, "il.n"); i < n; i++) {
        switch (choose(4, "il.kind")) {
          case 0: add_out(1, pick({1, 100, 5000, 70000}, "il.o")); break;
          case 1: add_out(2, pick({1, 100, 5000, 70000}, "il.e")); break;
          case 2: a.push_back("R:" + std::to_string(pick({1, 100, 5000, 70000}, "il.r"))); break;
          default: a.push_back(sleep_act("il.sleep")); break;
        }
      }
      if (choose(2, "il.drain")) {
        a.push_back("RA");
        s.reads_to_eof = true;
      }
      break;
    case 4: // exits at once (before the parent's first poll, if the scheduler lets it)
      s.family = "exit_immediately";
      if (choose(2, "ei.out")) add_out(1, pick({1, 100, 4096, 60000}, "ei.o"));
      break;
    case 5: // slow reader
      s.family = "slow_reader";
      for (unsigned i = 0, n = 1 + choose(3, "sr.n"); i < n; i++) {
        a.push_back(sleep_act("sr.sleep"));
        a.push_back("R:" + std::to_string(pick({1, 4096, 65536}, "sr.r")));
      }
      a.push_back("RA");
      s.reads_to_eof = true;
      add_out(1, pick({0, 10, 70000}, "sr.o"));
      break;
    case 6: // closes stdin early, keeps working
      s.family = "closes_stdin_early";
      if (choose(2, "cs.readsome")) a.push_back("R:" + std::to_string(pick({1, 100, 4096}, "cs.r")));
      a.push_back("C0");
      s.closes_stdin_early = true;
      add_out(1, draw_bytes("out1"));
      if (choose(2, "cs.sleep")) a.push_back(sleep_act("cs.sleep"));
      break;
    case 7: // writes after a long pause
      s.family = "writes_after_pause";
      if (choose(2, "wp.first")) add_out(1, pick({1, 100, 70000}, "wp.o1"));
      a.push_back(sleep_act("wp.sleep"));
      add_out(1, pick({1, 100, 70000, 200 * 1024}, "wp.o2"));
      if (choose(2, "wp.err")) add_out(2, pick({1, 100}, "wp.e"));
      break;
    case 11: // closes stdout AND stderr early (daemon style) and keeps running: no pipe is left to hear from
      s.family = "closes_all_output_early";
      if (choose(2, "ca.first")) add_out(1, pick({1, 100, 5000}, "ca.o"));
      a.push_back("C1");
      a.push_back("C2");
      if (choose(2, "ca.read")) {
        a.push_back("RA");
        s.reads_to_eof = true;
      }
      a.push_back(sleep_act("ca.sleep"));
      break;
    case 10: { // chatty: a little output every few hundred milliseconds for many seconds - the parent's poll()
               // never comes back empty-handed, so nothing that only happens "when poll timed out" ever happens
      s.family = "chatty";
      unsigned n = (unsigned)pick({12, 40, 100, 140}, "ch.n");
      uint64_t gap = pick({200000, 100000, 400000, 700000}, "ch.gap");
      uint64_t k = pick({10, 1, 100}, "ch.bytes");
      bool on_err = !for_communicate && choose(4, "ch.err") == 3;
      for (unsigned i = 0; i < n; i++) {
        if (on_err && (i & 1)) add_out(2, k);
        else add_out(1, k);
        a.push_back("SLEEP:" + std::to_string(gap));
        s.total_sleep += gap;
      }
      if (choose(2, "ch.drain")) {
        a.push_back("RA");
        s.reads_to_eof = true;
      }
      break;
    }
    case 9: // closes stdout early, then consumes its input
      s.family = "closes_stdout_early";
      if (choose(2, "co.first")) add_out(1, pick({1, 100, 5000}, "co.o"));
      a.push_back("C1");
      a.push_back("RA");
      s.reads_to_eof = true;
      if (choose(2, "co.err")) add_out(2, pick({1, 100}, "co.e"));
      break;
    default: // output just before dying by a signal
      s.family = "killed_by_signal";
      if (choose(2, "ks.read")) {
        a.push_back("RA");
        s.reads_to_eof = true;
      }
      add_out(1, pick({0, 1, 100, 70000}, "ks.o"));
      s.exit_kind = 2;
      s.exit_value = (int)pick({SIGKILL, SIGTERM, SIGABRT, SIGUSR1, SIGSEGV}, "ks.sig");
      break;
  }
  if (choose(8, "ignterm") == 7) {
    a.insert(a.begin(), "IGNTERM");
    s.ignores_term = true;
  }
  if (choose(8, "stops") == 7) {
    // the child is stopped for a while (job control, a debugger, SIGSTOP from an operator) and continued later:
    // a stopped child has not terminated
    uint64_t us = pick({1500000, 1000, 50000, 3000000}, "stops.for");
    a.insert(a.begin() + choose(a.size() + 1, "stops.at"), "STOP:" + std::to_string(us));
    s.total_sleep += us;
    s.stops_itself = true;
  }
  if (!for_communicate && choose(8, "hold") == 7) {
    // a background grandchild inherits the pipes: after the child's exit the parent's reads end with
    // EAGAIN instead of EOF (communicate() would rightly wait for such a grandchild, so not there)
    a.insert(a.begin(), "HOLD");
    s.holds_pipes = true;
  }
  if (s.exit_kind == 2) {
    a.push_back("KILL:" + std::to_string(s.exit_value));
  } else {
    s.exit_value = (int)pick({0, 0, 1, 3, 255}, "exit.code");
    if (s.exit_value || choose(2, "exit.explicit")) a.push_back("EXIT:" + std::to_string(s.exit_value));
  }
  for (size_t i = 0; i < a.size(); i++) s.text += (i ? ";" : "") + a[i];
  return s;
}

string make_payload(size_t n) {
  string p(n, '\0');
  for (size_t i = 0; i < n; i++) p[i] = (char)pat(0, i);
  return p;
}

uint64_t fnv(const char* p, size_t n) {
  uint64_t h = 0xCBF29CE484222325ULL;
  for (size_t i = 0; i < n; i++) {
    h ^= (uint8_t)p[i];
    h *= 0x100000001B3ULL;
  }
  return h;
}

bool matches_pattern(const string& got, int stream, uint64_t n) {
  if (got.size() != n) return false;
  for (uint64_t i = 0; i < n; i++)
    if ((uint8_t)got[i] != pat(stream, i)) return false;
  return true;
}

string status_text(int st) {
  if (st < 0) return "none";
  if (WIFEXITED(st)) return "exit " + std::to_string(WEXITSTATUS(st));
  if (WIFSIGNALED(st)) return "signal " + std::to_string(WTERMSIG(st));
  return "status " + std::to_string(st);
}

void draw_environment() {
  g = Sim();
  g.clock = 1700000000ULL * 1000000ULL; // simulated epoch
  g.speed = choose(3, "child.speed") == 0 ? 1 : (int)choose(3, "child.speed.kind");
  if (choose(3, "faults.any")) {
    g.eintr_den = (uint32_t)pick({0, 16, 4}, "f.eintr");
    g.eagain_den = (uint32_t)pick({0, 16, 4}, "f.eagain");
    g.clamp_den = (uint32_t)pick({0, 8, 2}, "f.clamp");
    g.stall_den = (uint32_t)pick({0, 64, 8}, "f.stall");
  }
  g.pipe_capacity = pick({0, 4096, 8192, 1 << 20}, "pipe.capacity");
  // descriptor 0 OR descriptor 1 missing, never both: with both gone pipe() returns (0,1) for the stdin pipe
  // and the child branch of the Subprocess constructor closes its own freshly installed stdout
  // (close(stdin_write_fd) with stdin_write_fd == 1). That is an observation about callers without any
  // standard descriptors, which C15 does not quantify over (DESIGN.md 10), so it is not generated.
  g.close_fd0 = choose(8, "parent.fd0_closed") == 7 ? 1 + choose(2, "parent.fd_mask") : 0;
  if (choose(8, "parent.heartbeat") == 7) g.heartbeat_us = pick({100000, 300000, 10000}, "parent.heartbeat.period");
  if (choose(4, "parent.other_thread_opens") == 3) g.foreign_den = (uint32_t)pick({1, 2}, "parent.other_thread_opens.rate");
  if (choose(8, "parent.second_caller") == 7) g.intruder_at = 1 + choose(6, "parent.second_caller.at");
  // errno as the call finds it: whatever an earlier, unrelated call of the program left behind
  g.entry_errno = (int)pick({0, 0, EAGAIN, EINTR, EPIPE, ECHILD, ENOENT}, "parent.errno_on_entry");
}

// Process-wide state a library call must hand back as it found it: the dispositions of SIGPIPE and SIGCHLD and
// the signal mask (the harness - like any program that uses pipes to children - ignores SIGPIPE).
struct ProcessState {
  struct sigaction pipe_act, chld_act;
  sigset_t mask;
  void capture() {
    sigaction(SIGPIPE, nullptr, &pipe_act);
    sigaction(SIGCHLD, nullptr, &chld_act);
    sigprocmask(SIG_SETMASK, nullptr, &mask);
  }
  // restores what it found changed and says what that was ("" if nothing)
  string restore_and_diff() const {
    ProcessState now;
    now.capture();
    string d;
    if (now.pipe_act.sa_handler != pipe_act.sa_handler) {
      d += string("the disposition of SIGPIPE (was ") + (pipe_act.sa_handler == SIG_IGN ? "ignored" : "something else") + ", is now " + (now.pipe_act.sa_handler == SIG_DFL ? "the default: the next write to a closed pipe kills the program" : "different") + ")";
      sigaction(SIGPIPE, &pipe_act, nullptr);
    }
    if (now.chld_act.sa_handler != chld_act.sa_handler) {
      d += string(d.empty() ? "" : "; ") + "the disposition of SIGCHLD";
      sigaction(SIGCHLD, &chld_act, nullptr);
    }
    bool mask_differs = false;
    for (int sig = 1; sig < 32; sig++) mask_differs |= sigismember(&now.mask, sig) != sigismember(&mask, sig);
    if (mask_differs) {
      d += string(d.empty() ? "" : "; ") + "the signal mask";
      sigprocmask(SIG_SETMASK, &mask, nullptr);
    }
    return d;
  }
};

// Runs the armed section with the process's descriptor 0 closed (and puts it back afterwards), so that
// the first pipe() of the code under test is handed descriptor 0.
struct Fd0Closer {
  int saved[2] = {-1, -1};
  // mask bit 0: descriptor 0 is closed; bit 1: descriptor 1 is closed (2 stays: sanitizer reports go there)
  explicit Fd0Closer(unsigned mask) {
    for (int fd = 0; fd < 2; fd++) {
      if (!(mask & (1u << fd))) continue;
      saved[fd] = fcntl(fd, F_DUPFD_CLOEXEC, 300);
      if (saved[fd] >= 0) __real_close(fd);
    }
    if (saved[0] >= 0) VS_PROBE("caller_without_descriptor_0");
    if (saved[1] >= 0) VS_PROBE("caller_without_descriptor_1");
  }
  ~Fd0Closer() {
    for (int fd = 0; fd < 2; fd++) {
      if (saved[fd] >= 0) {
        dup2(saved[fd], fd);
        __real_close(saved[fd]);
      }
    }
  }
};

size_t effective_capacity() { return g.pipe_capacity ? g.pipe_capacity : 65536; }

// Cleans up whatever the code under test left behind; reports leaks of processes.
void reap_leftovers(const string& api, bool expect_reaped) {
  Child& c = g.ch;
  if (c.holder > 0) {
    __real_kill(c.holder, SIGKILL); // not our child (a grandchild): init reaps it
    c.holder = -1;
  }
  if (c.pid <= 0) return;
  int st = 0;
  pid_t r = __real_waitpid(c.pid, &st, WNOHANG);
  if (r == 0) {
    // still running
    if (expect_reaped && !failed()) fail_soft(api + "/child_left_running", "after_return", api + " returned but the child process is still running");
    __real_kill(c.pid, SIGKILL);
    __real_waitpid(c.pid, &st, 0);
  } else if (r == c.pid) {
    if (expect_reaped && !failed()) fail_soft(api + "/child_not_reaped", "zombie", api + " returned but the child was left as a zombie (never waited for)");
  }
  if (c.ctl >= 0) __real_close(c.ctl);
  c.ctl = -1;
  c.pid = -1;
}

void check_outputs(const string& api, const Script& s, const string& out, const string* err, const string& payload, bool child_ran_to_completion) {
  const Reply& r = g.ch.last;
  if (g.ch.inherited_nonblock) {
    string which;
    for (int fd = 0; fd < 3; fd++)
      if (g.ch.inherited_nonblock & (1u << fd)) which += (which.empty() ? "" : ", ") + string(fd == 0 ? "stdin" : (fd == 1 ? "stdout" : "stderr"));
    fail(api + "/child_given_nonblocking_stdio", which, "the child process found its " + which + " in non-blocking mode (O_NONBLOCK set on the pipe by the parent survives fork and exec): an ordinary program (cat, head, ...) gets EAGAIN there as soon as the parent is slower than it, so its output is cut or it fails");
  }
  // stdout
  if (s.uses_cat) {
    if (out.size() != r.w1_total || payload.compare(0, out.size(), out) != 0) {
      fail(api + "/stdout_mismatch", s.family, api + " returned " + std::to_string(out.size()) + " bytes of stdout but the child (cat) wrote " + std::to_string(r.w1_total) + " bytes");
    }
  } else if (g.descendant && out.size() >= r.w1_total && matches_pattern(out.substr(0, r.w1_total), 1, r.w1_total) && out.size() - r.w1_total <= g.desc_written &&
      out.find_first_not_of('d', r.w1_total) == string::npos) {
    // the child's own output, complete, followed by some of what its descendant wrote to the same pipe afterwards
    VS_PROBE("output_of_descendant_included");
  } else if (!matches_pattern(out, 1, r.w1_total)) {
    string k = out.size() < r.w1_total ? "stdout_truncated" : "stdout_mismatch";
    fail(api + "/" + k, s.family, api + " returned " + std::to_string(out.size()) + " bytes of stdout but the child wrote " + std::to_string(r.w1_total) + " bytes to it" +
            (g.ch.death_clock ? " (child ended " + std::to_string(g.calls_after_child_exit) + " parent calls before the return)" : ""));
  }
  if (err && !matches_pattern(*err, 2, r.w2_total)) {
    string k = err->size() < r.w2_total ? "stderr_truncated" : "stderr_mismatch";
    fail(api + "/" + k, s.family, api + " returned " + std::to_string(err->size()) + " bytes of stderr but the child wrote " + std::to_string(r.w2_total) + " bytes to it");
  }
  // stdin delivery: what the child read must be a prefix of the payload; everything if it read to EOF
  if (r.read_total > payload.size() || fnv(payload.data(), r.read_total) != r.read_hash) {
    fail(api + "/stdin_corrupted", s.family, "the child read " + std::to_string(r.read_total) + " bytes from stdin that are not a prefix of the payload");
  }
  if (child_ran_to_completion && s.reads_to_eof && !s.closes_stdin_early) {
    if (r.read_total != payload.size()) {
      fail(api + "/stdin_not_delivered", s.family, "the child read stdin until EOF and got " + std::to_string(r.read_total) + " of the " + std::to_string(payload.size()) + " payload bytes");
    }
    if (!r.stdin_eof) fail(api + "/stdin_not_closed", s.family, "the child never saw EOF on stdin");
  }
}

void scen_run_process() {
  count("scenario.run_process");
  draw_environment();
  Script s = gen_script(false, effective_capacity());
  bool with_stdin = choose(4, "stdin.given") != 0;
  string payload = with_stdin ? make_payload(draw_bytes("payload")) : string();
  bool check = choose(2, "check");
  uint64_t timeout = choose(3, "timeout.given") == 2 ? pick({2000000, 500000, 10000000, 100, 3600000000ULL, 10800000000ULL}, "timeout") : 0;
  if (!s.uses_cat && !s.holds_pipes && choose(8, "descendant") == 7) {
    g.descendant = true;
    VS_PROBE("child_leaves_a_chatty_descendant");
  }
  for (size_t i = 0, pc = 0; i < s.text.size(); i++) {
    if (s.text[i] == ';') pc++;
    if (!s.text.compare(i, 7, "IGNTERM")) g.ign_term_pcs.push_back(pc);
  }
  note("run_process family=" + s.family + " script=" + s.text + " payload=" + (with_stdin ? std::to_string(payload.size()) : "none") + " check=" + std::to_string(check) +
      " timeout_us=" + std::to_string(timeout) + " pipe_capacity=" + std::to_string(effective_capacity()) + " child_speed=" + std::to_string(g.speed));
  ev("cfg", payload.size(), timeout, check);
  mark_nontrivial();

  std::set<int> fds_before = open_fds();
  std::vector<string> cmd = {g_child_path, s.text};
  // one run in sixteen: the program does not exist. The forked child must leave without touching the
  // caller's state - in particular without flushing the stdio buffers it inherited, which at that point
  // would go into the pipes. The caller has unflushed text pending in stdout to make that visible.
  bool exec_fails = choose(16, "exec.fails") == 15;
  if (exec_fails) {
    cmd[0] = "/nonexistent/vsim-child-does-not-exist";
    g.expect_exec_failure = true;
    s.family = "exec_fails";
    s.w1 = s.w2 = 0;
    s.reads_to_eof = false;
    fflush(stdout);
    fputs("UNFLUSHED TEXT OF THE CALLING PROCESS", stdout);
  }
  phosg::SubprocessResult res;
  bool threw = false;
  string what;
  set_context("run_process/" + s.family);
  uint64_t t_start = g.clock;
  {
    Fd0Closer fd0(g.close_fd0);
    ProcessState before_call;
    before_call.capture();
    g.armed = true;
    errno = g.entry_errno;
    try {
      res = phosg::run_process(cmd, with_stdin ? &payload : nullptr, check, nullptr, nullptr, timeout);
    } catch (const std::exception& e) {
      threw = true;
      what = e.what();
    }
    g.armed = false;
    g.state_diff = before_call.restore_and_diff();
    finish_foreign();
  }
  if (exec_fails) __fpurge(stdout); // drop the marker text again
  set_context("");
  uint64_t t_end = g.clock;
  add_sim_time_us(0);
  Child& c = g.ch;
  if (g.fork_count != 1) harness_bug("run_process did not create its child through fork() exactly once: this engine can only schedule a child it sees being forked (vfork, posix_spawn and clone are outside the seam, DESIGN.md 10)");

  // what is left behind (always cleaned up, judged only if nothing else failed)
  std::set<int> fds_after = open_fds();
  fds_after.erase(c.ctl);
  for (int fd : fds_after)
    if (!fds_before.count(fd)) __real_close(fd); // keep the worker process clean whatever the verdict
  bool already_failed = failed();
  reap_leftovers("run_process", true);
  if (already_failed) throw AbortRun();
  if (failed()) throw AbortRun();

  // ---- verdicts
  int expected_status = c.death_kind == 1 ? (c.death_value << 8) : c.death_value;
  bool timed_out_expected = false;
  if (timeout) {
    if (g.kills_sent && g.first_kill_clock - t_start < timeout) {
      fail("run_process/killed_before_timeout", s.family, "the child was sent signal " + std::to_string(g.first_kill_sig) + " after " + std::to_string(g.first_kill_clock - t_start) + " us although the timeout is " + std::to_string(timeout) + " us");
    }
    timed_out_expected = c.killed_by_parent;
    if (c.killed_by_parent) VS_PROBE("timeout_killed_child");
    // bounded liveness ("a timeout ends the child"): once a timeout is given the call ends within
    // timeout + poll granularity (1 s) + SIGTERM->SIGKILL grace (5 s) + another poll (1 s), plus the
    // delays the simulator itself injected (stalls, per-call costs, child step costs) - whether the
    // child honours SIGTERM or not
    uint64_t bound = timeout + 1000000 + 5000000 + 1000000 + 500000 + g.stall_total + g.calls * 50 + c.steps * 5 + 2 * g.max_jump;
    if (t_end - t_start > bound) {
      fail("run_process/timeout_not_enforced", s.ignores_term ? s.family + "/ignores_sigterm" : s.family,
          "with a timeout of " + std::to_string(timeout) + " us the call took " + std::to_string(t_end - t_start) + " us of simulated time (bound " + std::to_string(bound) + " us" +
              (s.ignores_term ? "; the child ignores SIGTERM, so only SIGKILL can end it" : "") + ")");
    }
    if (s.ignores_term && c.killed_by_parent && c.death_value == SIGKILL) VS_PROBE("sigkill_after_ignored_sigterm");
  } else if (g.kills_sent) {
    fail("run_process/killed_without_timeout", s.family, "run_process sent signal " + std::to_string(g.first_kill_sig) + " to the child although no timeout was given");
  }

  if (threw) {
    bool status_nonzero = expected_status != 0;
    bool epipe = what.find("write failed") != string::npos;
    if (epipe && (s.closes_stdin_early || !s.reads_to_eof || c.death_kind == 2 || c.killed_by_parent)) {
      // the reader went away before taking the whole payload: delivery cannot be demanded, but the
      // call is still expected to report the child's output and status instead of failing
      fail("run_process/threw_on_closed_stdin", s.family, "run_process threw '" + what.substr(0, 80) + "' because the child stopped reading its stdin; output and exit status are lost");
    }
    if (!(check && status_nonzero && what.find("command returned code") != string::npos)) {
      fail("run_process/unexpected_exception", s.family, "run_process threw '" + what.substr(0, 120) + "' (child ended with " + status_text(expected_status) + ", check=" + std::to_string(check) + ")");
    }
    VS_PROBE("check_threw_on_nonzero_status");
  } else {
    if (check && expected_status != 0) {
      fail("run_process/check_did_not_throw", s.family, "check=true and the child ended with " + status_text(expected_status) + " but run_process returned normally");
    }
    if (res.exit_status != expected_status) {
      fail("run_process/wrong_exit_status", c.death_kind == 2 ? "signal" : "exit_code", "run_process reported " + status_text(res.exit_status) + " but the child ended with " + status_text(expected_status));
    }
    bool completed = !c.killed_by_parent;
    check_outputs("run_process", s, res.stdout_contents, &res.stderr_contents, payload, completed);
    if (c.death_kind == 2 && !c.killed_by_parent) VS_PROBE("child_died_by_own_signal");
  }
  (void)timed_out_expected;

  if (!g.state_diff.empty()) fail("run_process/left_process_state_changed", g.state_diff.substr(0, g.state_diff.find(" (")), "run_process returned with process-wide state changed: " + g.state_diff);
  if (!g.foreign_failure.empty()) fail("run_process/closed_descriptor_it_does_not_own", threw ? "exception_path" : "normal_path", g.foreign_failure);
  if (g.intruder_ran && !g.intruder_failure.empty()) fail("run_process/second_caller_disturbed", s.family, "a second thread called run_process while this call was parked at the return of a read(): " + g.intruder_failure);
  // descriptors: whatever path was taken, the call must not leave any behind
  if (fds_after != fds_before) {
    std::vector<int> extra;
    for (int fd : fds_after)
      if (!fds_before.count(fd)) extra.push_back(fd);
    fail("run_process/fd_leak", threw ? "exception_path" : "normal_path", "run_process left " + std::to_string(extra.size()) + " descriptor(s) open" + (threw ? " on the exception path" : ""));
  }

  // reach
  if (payload.size() > effective_capacity()) VS_PROBE("payload_larger_than_pipe");
  if (s.holds_pipes) VS_PROBE("grandchild_kept_pipes_open");
  if (s.w1 > effective_capacity() || s.w2 > effective_capacity()) VS_PROBE("output_larger_than_pipe");
  if (g.unread_stdout_at_exit) VS_PROBE("child_exited_with_unread_output_in_pipe");
}

void scen_communicate() {
  count("scenario.communicate");
  draw_environment();
  Script s = gen_script(true, effective_capacity());
  string payload = choose(3, "stdin.given") ? make_payload(draw_bytes("payload")) : string();
  // (deadlines of hours are ordinary for batch jobs; they cost nothing here because time is simulated)
  uint64_t deadline = choose(2, "deadline.given") ? pick({5000000, 500000, 60000000, 1000, 3600000000ULL, 7200000000ULL, 86400000000ULL}, "deadline") : 0;
  for (size_t i = 0, pc = 0; i < s.text.size(); i++) {
    if (s.text[i] == ';') pc++;
    if (!s.text.compare(i, 7, "IGNTERM")) g.ign_term_pcs.push_back(pc);
  }
  note("communicate family=" + s.family + " script=" + s.text + " payload=" + std::to_string(payload.size()) + " deadline_us=" + std::to_string(deadline) +
      " pipe_capacity=" + std::to_string(effective_capacity()) + " child_speed=" + std::to_string(g.speed));
  ev("cfg", payload.size(), deadline);
  mark_nontrivial();

  // (descriptor 0 is taken away BEFORE the reference set is recorded: the clean-up below runs while it is
  // still away and must not touch the saved copy)
  Fd0Closer fd0(g.close_fd0);
  std::set<int> fds_before = open_fds();
  std::vector<string> cmd = {g_child_path, s.text};
  bool threw = false;
  string what, out;
  int wait_status = -1;
  set_context("communicate/" + s.family);
  uint64_t t_start = 0, t_return = 0;
  ProcessState before_call;
  before_call.capture();
  g.armed = true;
  errno = g.entry_errno;
  try {
    phosg::Subprocess sp(cmd);
    t_start = g.clock;
    errno = g.entry_errno;
    try {
      out = sp.communicate(payload, deadline);
      t_return = g.clock;
      wait_status = sp.wait();
    } catch (const std::exception& e) {
      threw = true;
      what = e.what();
      t_return = g.clock;
    }
  } catch (const std::exception& e) {
    g.armed = false;
    harness_bug(string("Subprocess construction failed: ") + e.what());
  }
  g.armed = false;
  g.state_diff = before_call.restore_and_diff();
  finish_foreign();
  set_context("");
  Child& c = g.ch;
  {
    // Subprocess never closes the pipe ends it still holds (no promise about that in C15, which
    // speaks of run_process only); keep the worker process clean
    std::set<int> fds_after = open_fds();
    for (int fd : fds_after)
      if (!fds_before.count(fd) && fd != c.ctl) __real_close(fd);
  }
  bool already_failed = failed();
  reap_leftovers("communicate", true);
  if (already_failed || failed()) throw AbortRun();

  int expected_status = c.death_kind == 1 ? (c.death_value << 8) : c.death_value;
  if (!g.state_diff.empty()) fail("communicate/left_process_state_changed", g.state_diff.substr(0, g.state_diff.find(" (")), "Subprocess/communicate returned with process-wide state changed: " + g.state_diff);
  if (!g.foreign_failure.empty()) fail("communicate/closed_descriptor_it_does_not_own", threw ? "exception_path" : "normal_path", g.foreign_failure);
  if (g.intruder_ran && !g.intruder_failure.empty()) fail("communicate/second_caller_disturbed", s.family, "a second thread called run_process while communicate was parked at the return of a read(): " + g.intruder_failure);
  if (threw) {
    // Whether an exception reports the deadline is decided by the simulated clock, not by its wording: with a
    // deadline that has passed, throwing is the promised outcome, whatever the message says.
    bool says_timeout = what.find("timed out") != string::npos || what.find("timeout") != string::npos || what.find("deadline") != string::npos || what.find("did not finish") != string::npos;
    if (!deadline) {
      if (says_timeout) fail("communicate/timed_out_without_deadline", s.family, "communicate threw '" + what.substr(0, 120) + "' although no deadline was given");
      fail("communicate/unexpected_exception", s.family, "communicate threw '" + what.substr(0, 120) + "'");
    }
    if (t_return - t_start < deadline) {
      if (says_timeout) fail("communicate/timed_out_early", s.family, "communicate threw '" + what.substr(0, 120) + "' after " + std::to_string(t_return - t_start) + " us of simulated time with a deadline of " + std::to_string(deadline) + " us");
      fail("communicate/unexpected_exception", s.family, "communicate threw '" + what.substr(0, 120) + "' before its deadline had passed");
    }
    VS_PROBE("communicate_deadline_passed");
    return;
  }
  if (c.killed_by_parent) fail("communicate/killed_child_but_returned", s.family, "communicate killed the child and still returned normally");
  if (wait_status != expected_status) fail("communicate/wrong_exit_status", c.death_kind == 2 ? "signal" : "exit_code", "wait() after communicate reported " + status_text(wait_status) + " but the child ended with " + status_text(expected_status));
  check_outputs("communicate", s, out, nullptr, payload, true);
  if (payload.size() > effective_capacity()) VS_PROBE("payload_larger_than_pipe");
  if (s.w1 > effective_capacity()) VS_PROBE("output_larger_than_pipe");
  if (deadline) VS_PROBE("communicate_with_deadline_returned");
  else VS_PROBE("communicate_without_deadline_returned");
}

// Subprocess life cycle without communicate(): construct, poll wait(true), optionally signal, optionally
// close stdin and wait(), optionally move-construct, destroy. Every child must be reaped by the time
// the last owner is destroyed, wait() must report the real status and cache it, no deadlock.
void scen_lifecycle() {
  count("scenario.lifecycle");
  draw_environment();
  Script s = gen_script(true, effective_capacity());
  // nobody reads the child's stdout here: keep its total output below half a pipe so that a child
  // blocked on a full pipe is not the *scenario's* fault
  if (s.w1 + s.w2 > effective_capacity() / 2 || s.uses_cat) {
    s = Script();
    s.family = "tiny";
    s.text = "W1:10:10;SLEEP:" + std::to_string(pick({1000, 2000000, 60000000}, "lc.sleep")) + ";EXIT:" + std::to_string(s.exit_value = (int)pick({0, 7}, "lc.exit"));
    s.w1 = 10;
  }
  for (size_t i = 0, pc = 0; i < s.text.size(); i++) {
    if (s.text[i] == ';') pc++;
    if (!s.text.compare(i, 7, "IGNTERM")) g.ign_term_pcs.push_back(pc);
  }
  unsigned polls = choose(5, "lc.polls");
  unsigned sig = (unsigned)pick({0, 0, SIGTERM, SIGKILL, SIGUSR1}, "lc.signal");
  bool close_stdin_and_wait = choose(2, "lc.wait");
  bool move_it = choose(3, "lc.move") == 2;
  note("lifecycle family=" + s.family + " script=" + s.text + " polls=" + std::to_string(polls) + " signal=" + std::to_string(sig) + " wait=" + std::to_string(close_stdin_and_wait) + " move=" + std::to_string(move_it));
  ev("cfg", polls, sig, close_stdin_and_wait * 2 + move_it);
  mark_nontrivial();
  std::set<int> fds_before = open_fds();
  std::vector<string> cmd = {g_child_path, s.text};
  std::vector<int> polled;
  bool alive_at_destruction = false;
  uint64_t t_destruct = 0, stall_before = 0;
  int waited = -2, waited_again = -2;
  bool threw = false;
  string what;
  set_context("lifecycle/" + s.family);
  g.armed = true;
  try {
    // The owner of the child may have received it by move construction or move assignment, and the object it
    // was moved out of is destroyed at once, while the child is running (`worker = Subprocess(cmd)`).
    phosg::Subprocess holder;
    std::optional<phosg::Subprocess> first, second;
    errno = g.entry_errno;
    first.emplace(cmd);
    phosg::Subprocess* sp = &*first;
    // ... at a drawn moment: right after construction, after the polling wait()s (the status may be cached by
    // then), or after the blocking wait()
    unsigned move_when = move_it ? choose(3, "lc.move.when") : 99;
    auto do_move = [&]() {
      if (choose(2, "lc.move.kind")) {
        second.emplace(std::move(*first));
        sp = &*second;
        VS_PROBE("subprocess_move_constructed");
      } else {
        holder = std::move(*first);
        sp = &holder;
        VS_PROBE("subprocess_move_assigned");
      }
      first.reset();
    };
    if (move_when == 0) do_move();
    for (unsigned i = 0; i < polls; i++) polled.push_back(sp->wait(true));
    if (move_when == 1) do_move();
    if (sig && g.ch.alive) sp->kill(sig);
    if (close_stdin_and_wait) {
      close(sp->stdin_fd()); // so that a child reading stdin sees EOF instead of waiting forever
      waited = sp->wait();
      if (move_when == 2) {
        do_move();
        VS_PROBE("subprocess_moved_after_reap");
      }
      waited_again = sp->wait(true);
    } else if (move_when == 2) {
      do_move();
    }
    alive_at_destruction = g.ch.alive;
    t_destruct = g.clock;
    stall_before = g.stall_total;
  } catch (const std::exception& e) {
    threw = true;
    what = e.what();
  }
  g.armed = false;
  finish_foreign();
  set_context("");
  Child& c = g.ch;
  {
    std::set<int> fds_after = open_fds();
    for (int fd : fds_after)
      if (!fds_before.count(fd) && fd != c.ctl) __real_close(fd);
  }
  bool already_failed = failed();
  reap_leftovers("lifecycle", true);
  if (already_failed || failed()) throw AbortRun();
  // the destructor of an owner whose child is still running ends that child (kill + reap); it must not
  // sit there for as long as the child pleases. Generous bound: 10 s of simulated time plus injected stalls.
  if (!threw && alive_at_destruction && t_destruct) {
    uint64_t took = g.clock - t_destruct;
    uint64_t bound = 10000000 + (g.stall_total - stall_before) + g.calls * 50 + 2 * g.max_jump;
    if (took > bound) {
      fail("lifecycle/destructor_waited_for_child", s.ignores_term ? "child_ignores_sigterm" : s.family,
          "~Subprocess took " + std::to_string(took) + " us of simulated time to end a running child" + (s.ignores_term ? " that ignores SIGTERM" : ""));
    }
    VS_PROBE("destructor_ended_running_child");
  }
  if (!g.foreign_failure.empty()) fail("lifecycle/closed_descriptor_it_does_not_own", "lifecycle", g.foreign_failure);
  if (threw) fail("lifecycle/unexpected_exception", s.family, "Subprocess life cycle threw '" + what.substr(0, 120) + "'");
  int expected_status = c.death_kind == 1 ? (c.death_value << 8) : c.death_value;
  if (close_stdin_and_wait) {
    if (waited != expected_status) fail("lifecycle/wrong_exit_status", c.death_kind == 2 ? "signal" : "exit_code", "wait() reported " + status_text(waited) + " but the child ended with " + status_text(expected_status));
    if (waited_again != waited) fail("lifecycle/status_not_cached", "wait", "wait(true) after wait() returned " + status_text(waited_again) + " instead of the cached " + status_text(waited));
    VS_PROBE("lifecycle_waited");
  }
  bool seen_exit = false;
  for (int v : polled) {
    if (v >= 0) {
      if (v != expected_status) fail("lifecycle/wrong_exit_status", "poll", "wait(true) reported " + status_text(v) + " but the child ended with " + status_text(expected_status));
      seen_exit = true;
    } else if (seen_exit) {
      fail("lifecycle/status_not_cached", "poll", "wait(true) returned 'still running' after it had already reported the exit status");
    }
  }
  if (c.killed_by_parent && !sig) VS_PROBE("destructor_killed_running_child");
  if (!c.killed_by_parent) VS_PROBE("destructor_found_child_exited");
}

} // namespace

static void run() {
  unsigned api = choose(8, "api");
  if (api == 2 || api == 5) {
    scen_communicate();
  } else if (api == 7) {
    scen_lifecycle();
  } else {
    // "however many times it is called": usually once, sometimes a short series in one process
    unsigned n = choose(6, "calls") == 5 ? 2 + choose(2, "calls.more") : 1;
    std::set<int> before = open_fds();
    for (unsigned i = 0; i < n; i++) scen_run_process();
    if (n > 1) {
      VS_PROBE("run_process_called_repeatedly");
      if (open_fds() != before) fail("run_process/fd_leak", "across_calls", "the set of open descriptors changed over " + std::to_string(n) + " consecutive run_process calls");
    }
  }
}

static void process_init() {
  signal(SIGPIPE, SIG_IGN);
  char buf[4096];
  ssize_t n = readlink("/proc/self/exe", buf, sizeof(buf) - 1);
  if (n <= 0) harness_bug("cannot resolve /proc/self/exe");
  buf[n] = 0;
  string exe(buf);
  string dir = exe.substr(0, exe.rfind('/'));
  g_child_path = dir.substr(0, dir.rfind('/')) + "/fw/vsim-child";
  if (getenv("VSIM_CHILD")) g_child_path = getenv("VSIM_CHILD");
  if (access(g_child_path.c_str(), X_OK)) harness_bug("vsim-child not found at " + g_child_path + " (run make setup)");
}

int main(int argc, char** argv) {
  Engine e;
  e.property = "C15";
  e.name = "sim-proc";
  e.run = run;
  e.process_init = process_init;
  e.quick_runs = 9000;
  e.thorough_runs = 250000;
  e.quick_cap_s = 200;
  e.watchdog_s = 60; // runs fork and exec a real child; leave more room on a loaded machine
  e.thorough_cap_s = 1700;
  e.rule =
      "one run = one call (sometimes 2-3 consecutive calls) of run_process(cmd, stdin?, check, timeout), or Subprocess+communicate(payload, deadline)+wait+destruction, or a "
      "Subprocess life cycle without communicate (poll wait, signal, move, wait, destroy), against a scripted child "
      "(ten families: read-all-then-write, write-then-read, cat, interleaved, exits at once, slow reader, closes stdin early, closes stdout early, writes after a long "
      "pause, dies by a signal; optionally a passive grandchild that keeps the pipes open; payload and output sizes up to 1 MiB, pipe capacity 4 KiB..1 MiB) under one seeded schedule (number of child steps released at every parent system "
      "call, stalls, simulated sleeps, EINTR, spurious EAGAIN, clamped transfers); distinct = distinct hash of the event log (every parent call with its result, "
      "every child step, every byte returned); every run is non-trivial (two real processes interleave)";
  e.assumptions = {
      "the embedding program ignores SIGPIPE (otherwise a child that closes its stdin early kills the caller regardless of what phosg does)",
      "the real kernel is trusted for pipe, fork/exec and wait semantics; under lock-step (exactly one of the two processes is runnable at any time) its behaviour is a deterministic function of the tape, which the determinism gate re-checks for every reported violation",
      "communicate() scripts keep stderr below half a pipe capacity because communicate() by design does not drain stderr",
      "clock jumps of the wall clock and fork/pipe failures are not injected"};
  e.components = {{"phosg Process.cc (Subprocess ctor incl. child branch, run_process, communicate, wait, kill, ~Subprocess), Filesystem.cc (Poll, pipe, make_fd_nonblocking, read)", "real code from the repository working tree"},
      {"kernel pipes, fork/exec, wait, signals", "real"},
      {"child program", "stub: vsim/child.c, a scripted peer that makes one non-blocking step per simulator command"},
      {"scheduling between parent and child, clock, poll timeouts, EINTR/EAGAIN/short transfers", "simulator (link-time wrappers in engines/sim_proc.cc)"}};
  e.expected_probes = {"payload_larger_than_pipe", "output_larger_than_pipe", "clock_jumped_over_child_sleep", "poll_timed_out", "blocking_waitpid", "timeout_killed_child", "check_threw_on_nonzero_status",
      "child_died_by_own_signal", "child_exited_with_unread_output_in_pipe", "communicate_with_deadline_returned", "communicate_without_deadline_returned", "communicate_deadline_passed", "parent_busy_wait_skipped", "lifecycle_waited", "destructor_killed_running_child", "destructor_found_child_exited", "run_process_called_repeatedly", "grandchild_kept_pipes_open", "sigkill_after_ignored_sigterm", "destructor_ended_running_child", "caller_without_descriptor_0", "caller_without_descriptor_1", "exec_failed_in_child"};
  e.expected_faults = {"EINTR@poll", "EINTR@waitpid", "spurious_EAGAIN@read", "spurious_EAGAIN@write", "short_read", "short_write", "parent_stall", "EINTR@poll(periodic_signal)", "other_thread_reuses_fd_number", "second_caller_during_read", "child_stopped_by_SIGSTOP"};
  e.expected_probes.push_back("subprocess_moved_after_reap");
  e.expected_probes.push_back("child_leaves_a_chatty_descendant");
  e.expected_faults.push_back("descendant_writes_after_exit");
  return driver_main(argc, argv, e);
}
