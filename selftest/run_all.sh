#!/bin/bash
# selftest/run_all.sh [pattern]: applies each own mutant (selftest/<PROP>-<name>.diff) to a scratch worktree
# and expects the quick check of <PROP> to report a violation (exit 1). Prints one line per mutant.
ROOT="$(cd "$(dirname "$0")/.." && pwd)"
fail=0
for d in "$ROOT"/selftest/${1:-*}.diff; do
  n=$(basename "$d" .diff); p=${n%%-*}
  out=$("$ROOT/tools/mutant_run.sh" "$d" "$p" --tier quick 2>&1)
  rc=$(echo "$out" | grep -o 'MUTANT-RESULT.*exit=[0-9]*' | grep -o '[0-9]*$')
  cls=$(echo "$out" | grep -m1 '^violation' | sed 's/violation class=//;s/ first_run.*//')
  [ -z "$cls" ] && cls=$(echo "$out" | grep -m1 '^VIOLATION' | sed 's/.*replays\///')
  if [ "$rc" = "1" ]; then echo "DETECTED  $n  ($cls)"; else echo "MISSED    $n  (exit=$rc)"; fail=1; fi
done
exit $fail
