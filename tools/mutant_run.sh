#!/bin/bash
# tools/mutant_run.sh <patch.diff> <PROP> [check args...]
# Applies a patch to a scratch worktree of /repo (never to /repo itself), runs bin/check <PROP> against
# it with separate evidence/replay locations, prints the verdict and removes the worktree and its build.
set -u
PATCH="$(readlink -f "$1")"; PROP="$2"; shift 2
ROOT="$(cd "$(dirname "$0")/.." && pwd)"
WT=$(mktemp -d /tmp/mut-XXXXXX)
rmdir "$WT"
git -C /repo worktree add -q --detach "$WT" HEAD || exit 2
cleanup() {
  git -C /repo worktree remove --force "$WT" 2>/dev/null
  rm -rf "$WT" "$ROOT/build/repo-$(printf '%s' "$WT" | md5sum | cut -c1-10)" "$WT-out"
}
trap cleanup EXIT
if ! git -C "$WT" apply "$PATCH"; then echo "MUTANT: patch does not apply"; exit 2; fi
mkdir -p "$WT-out"
VERIF_REPO="$WT" "$ROOT/bin/check" "$PROP" "$@" --replay-dir "$WT-out/replays" --evidence "$WT-out/evidence.json" > "$WT-out/log" 2>&1
rc=$?
grep -E "^violation|^VIOLATION|^KNOWN|^OK|HARNESS|BUILD-FAULT" "$WT-out/log" | cut -c1-260
echo "MUTANT-RESULT prop=$PROP exit=$rc patch=$(basename "$PATCH")"
exit $rc
