#!/usr/bin/env python3
"""Prints the library source files of the repository (add_library(phosg ...) in CMakeLists.txt);
falls back to src/*.cc minus tests and tool mains."""
import os, re, sys, glob
repo = sys.argv[1] if len(sys.argv) > 1 else "/repo"
srcs = []
try:
    text = open(os.path.join(repo, "CMakeLists.txt")).read()
    m = re.search(r"add_library\(\s*phosg\b(.*?)\)", text, re.S)
    if m:
        for tok in m.group(1).split():
            if tok.endswith(".cc") and os.path.exists(os.path.join(repo, tok)):
                srcs.append(tok)
except OSError:
    pass
if not srcs:
    mains = {"BinDiff.cc", "JSONFormat.cc", "ParseData.cc", "PhosgPNGConv.cc"}
    for p in sorted(glob.glob(os.path.join(repo, "src", "*.cc"))):
        b = os.path.basename(p)
        if b.endswith("Test.cc") or b in mains:
            continue
        srcs.append("src/" + b)
print(" ".join(srcs))
