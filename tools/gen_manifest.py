#!/usr/bin/env python3
"""Regenerates /verif/MANIFEST.json from the table below (single source of truth)."""
import json, os, sys
HERE = os.path.dirname(os.path.dirname(os.path.abspath(__file__)))

NA = {
 "C01": "pure in-memory typed reader/writer (StringReader/StringWriter/BitReader); no I/O, clock, thread, peer or fault reaches this code, so there is no schedule or fault sequence for a simulator to sample (DESIGN.md 5)",
 "C02": "bounds arithmetic over size_t arguments of in-memory buffers; a pure function of its arguments, not a simulation target (DESIGN.md 5)",
 "C03": "header-only byte-swap/bitfield arithmetic on scalars; pure function, no seam (DESIGN.md 5)",
 "C04": "JSON serialize/parse/compare over in-memory values; pure function of the value, no seam (DESIGN.md 5)",
 "C05": "JSON::parse totality over byte strings held in memory; truncation is an argument, nothing is delivered incrementally, so there is no crash point or short read to inject (DESIGN.md 5)",
 "C07": "canvas drawing/blit on a heap pixel buffer; no I/O, time or concurrency (DESIGN.md 5)",
 "C08": "string split/join/strip/replace/printf algebra; pure functions (DESIGN.md 5)",
 "C09": "format_data/parse_data_string text rendering of byte strings; the iovec partition is an argument, not a delivery schedule (DESIGN.md 5)",
 "C10": "digest functions over byte strings; pure (DESIGN.md 5)",
 "C11": "base64/rot13/escape/netloc codecs over strings; no socket is opened; pure (DESIGN.md 5)",
 "C12": "LRUSet/LRUMap are single-threaded containers without locking or I/O; the claim is over single-threaded call histories (model-based testing, not simulation) (DESIGN.md 5)",
 "C13": "KDTree single-threaded container; same reasoning as C12 (DESIGN.md 5)",
 "C17": "Arguments token classification and numeral parsing; pure function of argv (DESIGN.md 5)",
 "C18": "format_duration/format_time/format_size/parse_size format a given number; the clock is not read by the property (DESIGN.md 5)",
 "C19": "UnitTest expect_* macro exception-type matrix; pure control flow, no seam (DESIGN.md 5)",
}

def chk(pid, engine, text, note, design_ref, technique):
    return {
        "property_id": pid,
        "quick_cmd": "bin/check %s --tier quick" % pid,
        "thorough_cmd": "bin/check %s --tier thorough" % pid,
        "evidence_file": "/verif/evidence/%s.json" % pid,
        "replay_cmd_template": "bin/check %s --replay {path}" % pid,
        "engine": engine,
        "level_claimed": {"category": "exploration", "text": text, "design_ref": design_ref},
        "level_note": note,
        "technique": technique,
    }

CHECKS = [
    chk("C06", "sim-image",
        "Seeded search over simulated executions: generated pictures are saved by the real Image.cc onto a simulated disk (fopencookie) or produced as "
        "foreign P5/P6/P7/BMP variants by independent encoders, through FILE* and through filenames (fopen is routed to the simulated disk), after the image "
        "object went through copy/move histories; the simulator then decides what the disk durably holds (torn write / every or drawn prefix "
        "lengths), read errors, one interrupted read, chunked delivery, streams that cannot seek, a second file following in the same stream, a second thread saving and "
        "loading while the first is inside a stream call, a global C++ locale that groups digits, errno on entry, and disk-full during save. Oracles: the generator's pixel array, independent PNG/BMP/PPM decoders (own CRC-32), "
        "'throws or decodes identically' under faults, ASan/UBSan, and an exact malloc/free balance of the code under test for leaks. Small files are torn at "
        "every prefix length (enumeration, reported as such in evidence); otherwise sampling, not proof.",
        "Trusted: vsim/vfs.cc cookie layer, glibc stdio, zlib inflate for the PNG check, the reference encoders/decoders in engines/sim_image.cc. "
        "Wide (>8 bit) foreign samples use host byte order like phosg's own writer. Hostile headers / bit flips are outside C06.",
        "DESIGN.md 4.1", "deterministic simulation with fault injection (simulated disk: torn writes, truncation, EIO, chunking, full disk; independent-decoder oracle)"),
    chk("C15", "sim-proc",
        "Seeded search over parent/child schedules: the real run_process, Subprocess (including the child branch up to execvp), communicate, wait, kill and destructor "
        "run against real kernel pipes and a real forked child, but the child is a scripted helper that performs exactly one non-blocking step per simulator command, and the "
        "parent's poll/read/write/waitpid/kill/close/gettimeofday are link-time wrapped scheduling points. One seed decides how many child steps are released at every parent "
        "call, stalls, simulated sleeps and timeouts, EINTR, spurious EAGAIN and clamped transfers; blocking calls are emulated so 'no process can make a step' is a detected "
        "DEADLOCK. Twelve script families plus a passive grandchild holding the pipes, a chatty descendant played by the simulator, a child that stops itself (SIGSTOP/SIGCONT), a caller "
        "without descriptor 0 or 1, a periodic signal, another thread reusing released descriptor numbers, a second unsimulated caller, repeated calls, and a Subprocess life-cycle scenario "
        "with moves. "
        "Oracle: bytes and wait status recomputed from the script, payload delivery (count + hash seen by the child), check/timeout semantics with a simulated-time bound, "
        "reaping, livelock, and the open descriptor set before/after. Sampling, not proof.",
        "Trusted: the real kernel's pipe/wait/signal semantics (deterministic under lock-step; re-checked by the determinism gate), vsim/child.c, the wrappers in engines/sim_proc.cc. "
        "Assumes the embedding program ignores SIGPIPE. communicate() is not expected to drain stderr. gettimeofday is simulated, and std::chrono clocks named in repository code are retargeted at compile time (vsim/clock_shim.hh); "
        "a child created by vfork/posix_spawn/clone is invisible (DESIGN.md 10).",
        "DESIGN.md 4.3", "deterministic simulation with fault injection (lock-stepped real child process, wrapped parent system calls as scheduling points, simulated clock)"),
    chk("C16", "sim-par",
        "Seeded search over thread interleavings: the unmodified Tools.hh templates are instantiated against scheduler-controlled std::atomic/std::thread/std::jthread/std::mutex/std::condition_variable/std::counting_semaphore/std::latch/std::this_thread/usleep/now "
        "shims (macro retargeting in the harness TU), a seeded cooperative scheduler decides who runs at every atomic operation, thread start, join, sleep and callback "
        "entry (strategies: run-to-completion, uniform, PCT, starvation, round-robin; progress timer may fire early), and the recorded callback history is checked for "
        "exactly-once / at-most-once visits, range, thread numbers, returned value, joined threads, deadlock and termination; configurations include ranges at the "
        "type's maximum, empty ranges given backwards, ranges wider than half of uint8_t, a failing first thread creation, hardware_concurrency() of 0 and a preceding call in the same process. The same harness is built a second time "
        "under ThreadSanitizer with fiber switches that carry no synchronisation, so accesses ordered only by the scheduler are reported as data races. Sampling of "
        "sequentially consistent schedules, not proof.",
        "Trusted: the shims and scheduler (engines/sim_par.cc, vsim/vpar.cc), TSan's fiber API. Sequential consistency only (no weak-memory reorderings). "
        "The cursor-wrap defect found by this check (end_value within num_threads*block_size of IntT's maximum) was first a recorded known finding and is repaired since /repo commit 1231204.",
        "DESIGN.md 4.4", "deterministic simulation (seeded cooperative scheduler over real template code; second build under ThreadSanitizer fibers for data races)"),
    chk("C20", "sim-rand",
        "SCOPED to the entropy clause of C20 (random_int in [lo,hi]; random_data fills exactly n bytes). The real Random.cc runs against a simulated "
        "/dev/urandom whose byte stream (adversarial constants or seeded), read sizes and EIO/EINTR are decided by the seed; every run is executed twice "
        "(stream X, then its complement) on fresh threads so that each output byte is attributable to device data; the device also follows the Linux rule that a pending "
        "signal cuts reads longer than a page (normal behaviour under which random_data must not throw); getrandom/getentropy/readv/pread reach the same device; once per "
        "process the first use is also probed with the device on descriptor 0, with a failing first open, from a static constructor before main(), and in a child forked while "
        "another thread refills. gcd/reduce_fraction/log2i/Vector/Matrix4 "
        "are pure functions, not simulation targets, and are NOT decided by this check.",
        "Trusted: the simulated device in vsim/vfs.cc, std::thread for per-run isolation of the thread_local buffer. Only the random_data/random_int clause "
        "is covered; a change that breaks only the pure clauses of C20 is not detected.",
        "DESIGN.md 4.5", "deterministic simulation with fault injection (simulated entropy device, two-pass complement oracle) - scoped to random_data/random_int"),
    chk("C14", "sim-fs",
        "Seeded search over simulated executions: the real Filesystem.cc runs against a simulated kernel (descriptors incl. number 0, pipe-like "
        "streams blocking and non-blocking, regular files incl. ones whose size cannot be asked for or that grow or are replaced meanwhile, glibc stdio over real descriptors, a real "
        "kernel pipe whose writer is the simulator, directory trees with FIFO-like entries and symbolic links, poll readiness, a concurrent deleter, a second reader thread, errno on entry) that decides every read/write size, EINTR/EIO/ENOSPC/EAGAIN, EINTR from close, readdir order and full-disk "
        "point from one seed; each call is checked against a byte-vector/name-set/map reference model, with a strict oracle in fault-free runs and a "
        "'may throw, never lie' oracle when a fault was actually injected. Sampling, not proof.",
        "Trusted: the simulated kernel in vsim/vfs.cc (POSIX-legal behaviours only), glibc stdio (real), the reference models in engines/sim_fs.cc. "
        "Not covered: real file systems, readdir errors, fsync/durability (phosg never syncs). Calls issued inside shared libraries (std::filesystem) are outside the seam: "
        "a correct change to them is wrongly reported (DESIGN.md 10).",
        "DESIGN.md 4.2", "deterministic simulation with fault injection (seeded schedules and faults over a simulated kernel, reference-model oracle)"),
]

def main():
    m = {
        "version": 1,
        "setup_cmd": "make -C /verif setup",
        "hooks": {
            "guard": "PHOSG_VERIF_SIM",
            "enable": "no source hook is needed: all seams are link-time (-Wl,--wrap), fopencookie, macro retargeting in harness TUs and a lock-stepped helper child; the guard name is reserved and unused",
            "baseline_off_cmd": "cmake -G Ninja -S /repo -B /repo/_build && cmake --build /repo/_build && ctest --test-dir /repo/_build -j8 --timeout 900",
            "source_commits": [],
            "add_only": True,
        },
        "engines": [
            {"name": "sim-image", "path": "engines/sim_image.cc", "serves_properties": ["C06"], "kind_free_text": "deterministic simulation: real Image.cc over a simulated disk (fopencookie), torn writes/truncation/EIO/full disk, independent decoders"},
            {"name": "sim-proc", "path": "engines/sim_proc.cc", "serves_properties": ["C15"], "kind_free_text": "deterministic simulation: real Process.cc, real pipes and a lock-stepped scripted child (vsim/child.c); parent system calls are scheduling points"},
            {"name": "sim-par", "path": "engines/sim_par.cc", "serves_properties": ["C16"], "kind_free_text": "deterministic simulation: unmodified Tools.hh over scheduler-controlled atomic/thread shims (ucontext fibers), ASan+UBSan build and ThreadSanitizer-fiber build"},
            {"name": "sim-rand", "path": "engines/sim_rand.cc", "serves_properties": ["C20"], "kind_free_text": "deterministic simulation: real Random.cc over a simulated /dev/urandom (scoped clause only)"},
            {"name": "sim-fs", "path": "engines/sim_fs.cc", "serves_properties": ["C14"], "kind_free_text": "deterministic simulation: real Filesystem.cc over a simulated kernel (link-time --wrap + fopencookie), seeded fault injection"},
        ],
        "checks": CHECKS,
        "not_applicable": [{"property_id": k, "reason": v} for k, v in sorted(NA.items())],
        "notes": "Technique family: deterministic simulation with fault injection. See DESIGN.md.",
    }
    with open(os.path.join(HERE, "MANIFEST.json"), "w") as f:
        json.dump(m, f, indent=1)
        f.write("\n")

if __name__ == "__main__":
    main()
