#!/bin/bash
# tools/seed_verify.sh <seed-out-dir> <i> -- independent confirmation of a seeded change:
#   builds /repo HEAD + change<i>.diff in a scratch worktree with the project's own cmake build, runs
#   the 14 ctest tests, builds and runs the demonstration with and without the change.
set -u
OUT="$(readlink -f "$1")"; I="$2"
WT=$(mktemp -d /tmp/sv-XXXXXX); rmdir "$WT"
git -C /repo worktree add -q --detach "$WT" HEAD || exit 2
trap 'git -C /repo worktree remove --force "$WT" 2>/dev/null; rm -rf "$WT"' EXIT
cd "$WT"
build() { cmake -G Ninja -S . -B _build >/dev/null 2>&1 && cmake --build _build 2>&1 | tail -2; }
rundemo() {
  if [ -f "$OUT/demo$I.sh" ]; then cp "$OUT"/demo$I.* . 2>/dev/null; bash "$OUT/demo$I.sh" "$WT" > demo.log 2>&1; echo $?
  else
    cp "$OUT/demo$I.cc" demo.cc
    EXTRA=$(grep -o 'DEMO-BUILD-FLAGS:.*' demo.cc | sed 's/DEMO-BUILD-FLAGS://')
    if ! g++ -std=c++20 -O1 -g -I src demo.cc _build/libphosg.a -lz -lpthread $EXTRA -o demo > demo.build.log 2>&1; then echo "build-failed"; return; fi
    timeout 300 ./demo > demo.log 2>&1; echo $?
  fi
}
echo "== without the change"
build | tail -1
R0=$(rundemo); echo "demo exit (expected 0): $R0"; tail -2 demo.log
echo "== with the change"
git apply "$OUT/change$I.diff" || { echo "SEED-VERIFY: patch does not apply"; exit 2; }
build | tail -1
# ProcessTest looks up processes by name and fails when another worktree runs its own copy at the same
# moment: retry a failed suite up to three times
for try in 1 2 3; do
  T=$(ctest --test-dir _build -j8 --timeout 900 2>&1 | grep -E "tests passed|tests failed" | tail -1)
  echo "$T" | grep -q "100% tests passed" && break
  sleep $((RANDOM % 5 + 1))
done
echo "ctest: $T"
R1=$(rundemo); echo "demo exit (expected non-zero): $R1"; tail -3 demo.log
ok=1; [ "$R0" = "0" ] || ok=0; [ "$R1" != "0" ] && [ "$R1" != "build-failed" ] || ok=0; echo "$T" | grep -q "100% tests passed" || ok=0
echo "SEED-VERIFY out=$OUT i=$I confirmed=$ok"
