#!/usr/bin/env python3
"""Copies confirmed sub-agent changes from /tmp/seed/<name>/SEED_OUT into /verif/seeded/<id>/ with
meta.json built from the logs of tools/seed_process.sh (/tmp/seed/results). Descriptions are
hand-written summaries of the agents' notes."""
import json, os, re, shutil, sys
R = '/tmp/seed/results'
INFO = json.load(open(os.path.join(os.path.dirname(__file__), 'seed_info.json')))
COMMENTS = INFO.pop('_comments', {})
os.makedirs('/verif/seeded', exist_ok=True)
for sid, (prop, what, needs) in INFO.items():
    name, i = sid.split('-')
    src = f'/tmp/seed/{name}/SEED_OUT'
    if not os.path.exists(f'{R}/{sid}.verify.log') or not os.path.exists(f'{src}/change{i}.diff'):
        continue  # not processed yet, or adopted earlier (its scratch worktree is gone)
    dst = f'/verif/seeded/{sid}'
    os.makedirs(dst, exist_ok=True)
    shutil.copy(f'{src}/change{i}.diff', f'{dst}/patch.diff')
    for ext in ('cc', 'sh'):
        if os.path.exists(f'{src}/demo{i}.{ext}'):
            shutil.copy(f'{src}/demo{i}.{ext}', f'{dst}/demo.{ext}')
    shutil.copy(f'{src}/notes{i}.md', f'{dst}/notes.md')
    v = open(f'{R}/{sid}.verify.log').read()
    c = open(f'{R}/{sid}.check.log').read() if os.path.exists(f'{R}/{sid}.check.log') else ''
    confirmed = 'confirmed=1' in v
    ctest = re.search(r'ctest: (.*)', v)
    m = re.search(r'MUTANT-RESULT prop=\S+ exit=(\d+)', c)
    ex = int(m.group(1)) if m else None
    classes = sorted(set(re.findall(r'^violation class=(\S+) key=(\S+)', c, re.M)))
    classes += [(a, b) for a, b in sorted(set(re.findall(r'replays/([a-z_]+?_[a-z_]+?)-(\S+?)-\d+-\d+\.json', c))) if not classes]
    meta = {'id': sid, 'property': prop, 'source': 'independent sub-agent given only the property text and a scratch worktree',
            'change': what, 'needs_to_manifest': needs,
            'confirmation': {'script': 'tools/seed_verify.sh (scratch worktree, project cmake build with -Werror, ctest, demonstration with and without the change)',
                             'ctest': ctest.group(1).strip() if ctest else None, 'demo_fails_with_change': confirmed,
                             'demo_passes_without_change': confirmed, 'confirmed': confirmed},
            'check': {'command': f'tools/mutant_run.sh seeded/{sid}/patch.diff {prop} --tier quick', 'exit_code': ex, 'detected': ex == 1,
                      'violation_classes': [f'{a} [{b}]' for a, b in classes][:6]}}
    if sid in COMMENTS:
        meta['check']['comment'] = COMMENTS[sid]
    json.dump(meta, open(f'{dst}/meta.json', 'w'), indent=1)
    print(sid, prop, 'confirmed' if confirmed else 'UNCONFIRMED', 'exit', ex, [a for a, b in classes][:2])
