#!/bin/bash
# tools/coverage.sh <engine: sim_fs|sim_rand|sim_image|sim_par|sim_proc> [runs]
# Diagnostic (not a check): which lines of the repository sources does the engine's workload execute?
# Builds an uninstrumented-by-sanitizers coverage variant, runs the quick workload, and prints line
# coverage per anchored source file plus the uncovered lines. sim_image needs ASan's allocator hooks for
# its leak oracle, which the coverage build lacks; that oracle is inert there.
set -u
ROOT="$(cd "$(dirname "$0")/.." && pwd)"
E="$1"; RUNS="${2:-20000}"
case "$E" in sim_fs) P=C14; FILES="Filesystem.cc";; sim_rand) P=C20; FILES="Random.cc";; sim_image) P=C06; FILES="Image.cc";; sim_par) P=C16; FILES="Tools.hh";; sim_proc) P=C15; FILES="Process.cc";; *) exit 2;; esac
B=$("$ROOT/bin/check" $P --build-only | tail -1) || exit 2
make -s -j16 -C "$ROOT" engine E="${E}_cov" REPO="${VERIF_REPO:-/repo}" B="$B" || exit 2
OUT=$(mktemp -d /tmp/cov-XXXXXX); trap 'rm -rf "$OUT"' EXIT
LLVM_PROFILE_FILE="$OUT/p-%8m.profraw" "$B/${E}_cov" --runs "$RUNS" --evidence "$OUT/ev.json" --replay-dir "$OUT/rp" --no-shrink > "$OUT/log" 2>&1
tail -2 "$OUT/log" | cut -c1-160
llvm-profdata-14 merge -o "$OUT/all.profdata" "$OUT"/*.profraw || exit 2
for f in $FILES; do
  echo "== ${VERIF_REPO:-/repo}/src/$f"
  llvm-cov-14 report "$B/${E}_cov" -instr-profile="$OUT/all.profdata" "${VERIF_REPO:-/repo}/src/$f" 2>/dev/null | tail -3
  llvm-cov-14 show "$B/${E}_cov" -instr-profile="$OUT/all.profdata" "${VERIF_REPO:-/repo}/src/$f" -show-line-counts 2>/dev/null \
    | awk -F'|' '$2 ~ /^ *0$/ {print "   uncovered " $1 ":" $3}' | head -${COV_LINES:-80}
done
