#!/bin/bash
# tools/determinism_on_mutant.sh <patch.diff> <engine> [runs]: the determinism comparison of tools/determinism.sh,
# but on a scratch worktree with a breaking change applied. State that leaks between runs of a worker is
# often invisible while the code under test is correct and only shows once behaviour depends on it.
set -u
PATCH="$(readlink -f "$1")"; E="$2"; RUNS="${3:-3000}"
ROOT="$(cd "$(dirname "$0")/.." && pwd)"
WT=$(mktemp -d /tmp/detm-XXXXXX); rmdir "$WT"
git -C /repo worktree add -q --detach "$WT" HEAD || exit 2
trap 'git -C /repo worktree remove --force "$WT" 2>/dev/null; rm -rf "$WT" "$ROOT/build/repo-$(printf "%s" "$WT" | md5sum | cut -c1-10)"' EXIT
git -C "$WT" apply "$PATCH" || { echo "patch does not apply"; exit 2; }
VERIF_REPO="$WT" "$ROOT/tools/determinism.sh" "$E" "$RUNS"
