#!/bin/bash
# tools/seeded_regress.sh [jobs] : re-runs the quick check of every seeded change (seeded/<id>/) against the
# current machinery and compares with the recorded verdict. Uses the ported patch where the original no
# longer applies to /repo HEAD. One line per change; exit 1 if a recorded detection is lost.
ROOT="$(cd "$(dirname "$0")/.." && pwd)"
JOBS="${1:-4}"
OUT=$(mktemp -d /tmp/sreg-XXXXXX)
run_one() {
  d="$1"; id=$(basename "$d"); ROOT="$2"; OUT="$3"
  prop=$(python3 -c "import json;print(json.load(open('$d/meta.json'))['property'])")
  want=$(python3 -c "import json;print(1 if json.load(open('$d/meta.json'))['check']['detected'] else 0)")
  patch="$d/patch.diff"
  if ! git -C /repo apply --check "$patch" 2>/dev/null; then
    patch=$(ls "$d"/patch_ported_to_*.diff 2>/dev/null | head -1)
  fi
  if [ -z "$patch" ]; then echo "SKIP      $id (no applicable patch)"; return; fi
  res=$("$ROOT/tools/mutant_run.sh" "$patch" "$prop" --tier quick 2>&1)
  rc=$(echo "$res" | grep -o 'MUTANT-RESULT.*exit=[0-9]*' | grep -o '[0-9]*$')
  cls=$(echo "$res" | grep -m1 '^violation' | sed 's/violation class=//;s/ first_run.*//')
  if [ "$rc" = "1" ]; then got=1; else got=0; fi
  # correct changes on which the machinery is known to be wrong (DESIGN.md 10): reported, not counted
  if grep -q '"expected": "limit"' "$d/meta.json"; then echo "LIMIT     $id exit=$rc ($cls)"; return; fi
  # property-preserving refactorings must leave the check silent: only exit 0 counts
  if grep -q '"expected": "silent"' "$d/meta.json" && [ "$rc" != "0" ]; then echo "CHANGED   $id expected silent (exit 0), got exit=$rc ($cls)"; return; fi
  hf=$(echo "$res" | grep -m1 'HARNESS' | cut -c1-400)
  if [ "$got" = "$want" ]; then echo "SAME      $id detected=$got ($cls)"; else echo "CHANGED   $id recorded=$want now=$got exit=$rc ($cls) $hf"; fi
}
export -f run_one
ls -d "$ROOT"/seeded/C*/ | sed 's#/$##' | xargs -P "$JOBS" -I{} bash -c 'run_one "$@"' _ {} "$ROOT" "$OUT" | tee "$OUT/result.txt"
grep -c "^SAME" "$OUT/result.txt"
if grep -q "^CHANGED.*recorded=1 now=0" "$OUT/result.txt"; then exit 1; fi
