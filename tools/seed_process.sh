#!/bin/bash
# tools/seed_process.sh <seed-name e.g. C14a> <PROP> : verify both changes of one sub-agent and run the check on them
N="$1"; P="$2"; R=/tmp/seed/results; mkdir -p $R
for i in $(ls /tmp/seed/$N/SEED_OUT/change*.diff 2>/dev/null | sed "s/.*change\([0-9]*\)\.diff/\1/" | sort -n); do
  /verif/tools/seed_verify.sh /tmp/seed/$N/SEED_OUT $i > $R/$N-$i.verify.log 2>&1
  /verif/tools/mutant_run.sh /tmp/seed/$N/SEED_OUT/change$i.diff $P --tier quick > $R/$N-$i.check.log 2>&1
  echo "$N-$i $(grep SEED-VERIFY $R/$N-$i.verify.log | sed 's/.*confirmed=/confirmed=/') $(grep MUTANT-RESULT $R/$N-$i.check.log | sed 's/.*exit=/exit=/;s/ patch.*//') $(grep -m2 '^violation' $R/$N-$i.check.log | sed 's/violation class=//;s/ first_run.*//' | tr '\n' ';')"
done
