#!/bin/bash
# tools/determinism.sh <engine-binary-name: sim_fs|sim_rand|sim_image|sim_par|sim_par_tsan|sim_proc> <runs> [seed]
# Executes the same run indices at worker counts 1, 4 and 16 (the last one twice, once with all
# cores kept busy by spinning processes) and compares (index, event-log hash, verdict flags).
set -u
ROOT="$(cd "$(dirname "$0")/.." && pwd)"
E="$1"; RUNS="${2:-2000}"; SEED="${3:-7}"
case "$E" in sim_fs) P=C14;; sim_rand) P=C20;; sim_image) P=C06;; sim_par|sim_par_tsan) P=C16;; sim_proc) P=C15;; *) echo "unknown engine"; exit 2;; esac
B=$("$ROOT/bin/check" $P --build-only | tail -1) || exit 2
OUT=$(mktemp -d /tmp/det-XXXXXX)
trap 'rm -rf "$OUT"; kill $(jobs -p) 2>/dev/null' EXIT
for W in 1 4 16; do
  "$B/$E" --runs "$RUNS" --seed "$SEED" --workers $W --hash-log "$OUT/h$W" --evidence "$OUT/ev.json" --replay-dir "$OUT/rp" --no-shrink >/dev/null 2>&1
done
for i in $(seq 16); do (while :; do :; done) & done
"$B/$E" --runs "$RUNS" --seed "$SEED" --workers 16 --hash-log "$OUT/h16b" --evidence "$OUT/ev.json" --replay-dir "$OUT/rp" --no-shrink >/dev/null 2>&1
kill $(jobs -p) 2>/dev/null
ok=1
for f in h4 h16 h16b; do
  if ! cmp -s "$OUT/h1" "$OUT/$f"; then ok=0; echo "DIFFERENCE between workers=1 and $f:"; diff "$OUT/h1" "$OUT/$f" | head -5; fi
done
n=$(wc -l < "$OUT/h1")
d=$(cut -d' ' -f2 "$OUT/h1" | sort -u | wc -l)
if [ $ok = 1 ]; then echo "DETERMINISM-OK engine=$E runs=$n distinct_hashes=$d seed=$SEED (workers 1/4/16/16+load identical)"; else echo "DETERMINISM-FAIL engine=$E"; exit 1; fi
