# Build of the deterministic-simulation machinery. Everything is built from files on disk.
#   make setup                      framework parts that do not depend on /repo
#   make engine E=sim_fs            one engine binary against $(REPO) (default /repo)
# Objects that depend on the repository live in $(B) and are rebuilt when the content hash of
# $(REPO)/src or the flags change (bin/check handles the stamp).

REPO ?= /repo
ROOT := $(dir $(abspath $(lastword $(MAKEFILE_LIST))))
BUILD ?= $(ROOT)build
B ?= $(BUILD)/repo-default
CXX := clang++
CC := clang
STD := -std=c++20
OPT := -O1 -g -fno-omit-frame-pointer
WARN := -Wall -Wextra -Wno-unused-parameter
ASAN := -fsanitize=address,undefined -fno-sanitize-recover=undefined
TSAN := -fsanitize=thread
LIBSRCS := $(shell python3 $(ROOT)tools/libsrcs.py $(REPO))
LIBOBJS_ASAN := $(patsubst src/%.cc,$(B)/asan/lib/%.o,$(LIBSRCS))

WRAP_VFS := read write pread pwrite open close fstat stat lstat fcntl poll opendir fdopendir readdir closedir unlink rmdir fopen fdopen lseek ftruncate openat fstatat unlinkat readv writev ppoll getrandom getentropy dirfd scandir
WRAPFLAGS_VFS := $(foreach s,$(WRAP_VFS),-Wl,--wrap=$(s))

.PHONY: setup clean engine
.SECONDARY:

setup: $(BUILD)/fw/vsim.o $(BUILD)/fw/vpar.o $(BUILD)/fw/vsim-child

$(BUILD)/fw/vsim.o: $(ROOT)vsim/vsim.cc $(ROOT)vsim/vsim.hh $(ROOT)vsim/json_min.hh
	@mkdir -p $(dir $@)
	$(CXX) $(STD) -O2 -g $(WARN) -c $< -o $@

$(BUILD)/fw/vsim-child: $(ROOT)vsim/child.c
	@mkdir -p $(dir $@)
	$(CC) -O2 -g -Wall -static $< -o $@ || $(CC) -O2 -g -Wall $< -o $@

# ---- repository objects (ASan+UBSan)
# (Process.cc without UBSan's bool check: the Subprocess constructor leaves the member `terminated` uninitialised
# and the move operations copy it - never read otherwise. With the check on, moving a Subprocess cannot be
# exercised at all; C15 says nothing about that member.)
$(B)/asan/lib/Process.o: EXTRA_SAN := -fno-sanitize=bool
$(B)/asan/lib/%.o: $(REPO)/src/%.cc
	@mkdir -p $(dir $@)
	$(CXX) $(STD) $(OPT) $(ASAN) $(EXTRA_SAN) -w -include $(ROOT)vsim/clock_shim.hh -I$(REPO)/src -c $< -o $@

$(B)/asan/librepo.a: $(LIBOBJS_ASAN)
	@rm -f $@
	ar rcs $@ $^

# ---- harness objects that see phosg headers or run inside the sanitized process
$(B)/asan/vfs.o: $(ROOT)vsim/vfs.cc $(ROOT)vsim/vfs.hh $(ROOT)vsim/vsim.hh
	@mkdir -p $(dir $@)
	$(CXX) $(STD) $(OPT) $(ASAN) $(WARN) -I$(ROOT)vsim -c $< -o $@

$(B)/asan/%.o: $(ROOT)engines/%.cc $(wildcard $(ROOT)vsim/*.hh) $(wildcard $(ROOT)engines/*.hh) $(wildcard $(REPO)/src/*.hh)
	@mkdir -p $(dir $@)
	$(CXX) $(STD) $(OPT) $(ASAN) $(WARN) -I$(ROOT)vsim -I$(ROOT)engines -I$(REPO)/src -c $< -o $@

$(B)/sim_fs: $(B)/asan/sim_fs.o $(B)/asan/vfs.o $(B)/asan/librepo.a $(BUILD)/fw/vsim.o
	$(CXX) $(ASAN) $(WRAPFLAGS_VFS) $^ -lz -lpthread -o $@

$(B)/sim_rand: $(B)/asan/sim_rand.o $(B)/asan/vfs.o $(B)/asan/librepo.a $(BUILD)/fw/vsim.o
	$(CXX) $(ASAN) $(WRAPFLAGS_VFS) $^ -lz -lpthread -o $@

$(B)/sim_image: $(B)/asan/sim_image.o $(B)/asan/vfs.o $(B)/asan/librepo.a $(BUILD)/fw/vsim.o
	$(CXX) $(ASAN) $(WRAPFLAGS_VFS) $^ -lz -lpthread -o $@

# ---- sim-par: uninstrumented scheduler, ASan and TSan builds of the same harness
LIBOBJS_TSAN := $(patsubst src/%.cc,$(B)/tsan/lib/%.o,$(LIBSRCS))

$(BUILD)/fw/vpar.o: $(ROOT)vsim/vpar.cc $(ROOT)vsim/vpar.hh $(ROOT)vsim/vsim.hh
	@mkdir -p $(dir $@)
	$(CXX) $(STD) -O2 -g $(WARN) -I$(ROOT)vsim -c $< -o $@

$(B)/tsan/lib/%.o: $(REPO)/src/%.cc
	@mkdir -p $(dir $@)
	$(CXX) $(STD) $(OPT) $(TSAN) -w -include $(ROOT)vsim/clock_shim.hh -I$(REPO)/src -c $< -o $@

$(B)/tsan/librepo.a: $(LIBOBJS_TSAN)
	@rm -f $@
	ar rcs $@ $^

$(B)/tsan/sim_par.o: $(ROOT)engines/sim_par.cc $(wildcard $(ROOT)vsim/*.hh) $(wildcard $(REPO)/src/*.hh)
	@mkdir -p $(dir $@)
	$(CXX) $(STD) $(OPT) $(TSAN) -DVSIM_TSAN_BUILD $(WARN) -I$(ROOT)vsim -I$(REPO)/src -c $< -o $@

$(B)/sim_par: $(B)/asan/sim_par.o $(B)/asan/librepo.a $(BUILD)/fw/vpar.o $(BUILD)/fw/vsim.o
	$(CXX) $(ASAN) $^ -lz -lpthread -o $@

$(B)/sim_par_tsan: $(B)/tsan/sim_par.o $(B)/tsan/librepo.a $(BUILD)/fw/vpar.o $(BUILD)/fw/vsim.o
	$(CXX) $(TSAN) $^ -lz -lpthread -o $@

# ---- sim-proc: real Process.cc against the lock-stepped child
WRAP_PROC := fork waitpid wait4 waitid kill poll ppoll read write close gettimeofday pipe pipe2
WRAPFLAGS_PROC := $(foreach s,$(WRAP_PROC),-Wl,--wrap=$(s))

$(B)/sim_proc: $(B)/asan/sim_proc.o $(B)/asan/librepo.a $(BUILD)/fw/vsim.o $(BUILD)/fw/vsim-child
	$(CXX) $(ASAN) $(WRAPFLAGS_PROC) $(B)/asan/sim_proc.o $(B)/asan/librepo.a $(BUILD)/fw/vsim.o -lz -lpthread -o $@

# ---- coverage builds (diagnostic only: tools/coverage.sh); no sanitizers
COV := -fprofile-instr-generate -fcoverage-mapping
LIBOBJS_COV := $(patsubst src/%.cc,$(B)/cov/lib/%.o,$(LIBSRCS))
$(B)/cov/lib/%.o: $(REPO)/src/%.cc
	@mkdir -p $(dir $@)
	$(CXX) $(STD) -O0 -g $(COV) -w -include $(ROOT)vsim/clock_shim.hh -I$(REPO)/src -c $< -o $@
$(B)/cov/librepo.a: $(LIBOBJS_COV)
	@rm -f $@
	ar rcs $@ $^
$(B)/cov/vfs.o: $(ROOT)vsim/vfs.cc $(ROOT)vsim/vfs.hh $(ROOT)vsim/vsim.hh
	@mkdir -p $(dir $@)
	$(CXX) $(STD) -O1 -g $(WARN) -I$(ROOT)vsim -c $< -o $@
$(B)/cov/%.o: $(ROOT)engines/%.cc $(wildcard $(ROOT)vsim/*.hh) $(wildcard $(REPO)/src/*.hh)
	@mkdir -p $(dir $@)
	$(CXX) $(STD) -O0 -g $(COV) $(WARN) -Wno-unused-function -I$(ROOT)vsim -I$(ROOT)engines -I$(REPO)/src -c $< -o $@
$(B)/sim_fs_cov: $(B)/cov/sim_fs.o $(B)/cov/vfs.o $(B)/cov/librepo.a $(BUILD)/fw/vsim.o
	$(CXX) $(COV) $(WRAPFLAGS_VFS) $^ -lz -lpthread -o $@
$(B)/sim_rand_cov: $(B)/cov/sim_rand.o $(B)/cov/vfs.o $(B)/cov/librepo.a $(BUILD)/fw/vsim.o
	$(CXX) $(COV) $(WRAPFLAGS_VFS) $^ -lz -lpthread -o $@
$(B)/sim_image_cov: $(B)/cov/sim_image.o $(B)/cov/vfs.o $(B)/cov/librepo.a $(BUILD)/fw/vsim.o
	$(CXX) $(COV) $(WRAPFLAGS_VFS) $^ -lz -lpthread -o $@
$(B)/sim_par_cov: $(B)/cov/sim_par.o $(B)/cov/librepo.a $(BUILD)/fw/vpar.o $(BUILD)/fw/vsim.o
	$(CXX) $(COV) $^ -lz -lpthread -o $@
$(B)/sim_proc_cov: $(B)/cov/sim_proc.o $(B)/cov/librepo.a $(BUILD)/fw/vsim.o $(BUILD)/fw/vsim-child
	$(CXX) $(COV) $(WRAPFLAGS_PROC) $(B)/cov/sim_proc.o $(B)/cov/librepo.a $(BUILD)/fw/vsim.o -lz -lpthread -o $@

engine: $(B)/$(E)

clean:
	rm -rf $(BUILD)
